(* C01 (part): the first layer of Bar-Natan's tangle / cobordism engine (v2) of the library, brought inside the model:
     yui-link/src/link/path.rs, crossing.rs (Crossing::arcs)            Path: arcs / circles as label sequences
     yui-khovanov/src/kh/internal/v2/tng.rs                             TngComp, Tng: gluing of tangles
   Model: Model/Tng.v (mirror, list for Vec, None for a panic); proofs: Proofs/TngP*.v.
   The correspondence run (harness/src/bin/c01tng.rs, vlib/c01tng.py) compares every function of the model with the
   real code on the RAW representation (stored label order of every component).

   Reading of the statements
   * a path [v0; ...; vn] is a walk in the graph whose vertices are the edge labels of the diagram; [segs p] are its
     steps as unordered pairs (min, max) - a circle has the closing step in addition, the one-label circle [e] (a kink)
     is the loop (e, e); [tsegs t] is the multiset of steps of all components of a tangle;
   * [pwf] / [twf]: arcs are not empty (Path::new asserts it, no operation breaks it);
   * [simple p]: no repeated label; an arc has >= 2 labels, a circle >= 1;
   * [tng_inv t]: all components simple, their label sets pairwise disjoint;  [tng_ok t] = [tng_inv t] and
     sorted by TngComp's order (is_circle, min_edge) - THE CANONICAL FORM the code maintains: `normalize` sorts the
     Vec of components by (arc before circle, least label); the orientation / rotation of a component is NOT
     normalised (it depends on the gluing order), which is why TngComp's == is the unoriented equality [unori_eq];
   * [deg_le2 S]: every label lies on at most two step ends;  [labels_le2 xs]: every label occurs at most twice
     among the 4n slots of the crossings (every PD code and every sub-tangle of one);
   * [conn S u v]: u and v are joined by a chain of steps of S. *)
From Coq Require Import List Arith Bool ZArith Permutation Sorted Relations.
Import ListNotations.
Require Import Yui.Model.Link Yui.Model.Tng Yui.Model.TngCob.
Require Import Yui.Proofs.TngPCob Yui.Proofs.TngPCobDeg.
Require Import Yui.Proofs.TngPBase Yui.Proofs.TngPSegs Yui.Proofs.TngPDeg Yui.Proofs.TngPJoin Yui.Proofs.TngPStep
  Yui.Proofs.TngPSeq Yui.Proofs.TngPConn Yui.Proofs.TngPMain Yui.Proofs.TngPUniq Yui.Proofs.TngPEq
  Yui.Proofs.TngPLink.
Require Yui.Proofs.C18Base Yui.Proofs.C18Components.

(* ================================================================================================== *)
(* 1. for ALL inputs (malformed ones included): whatever returns preserves the multiset of steps       *)
(* ================================================================================================== *)

(* Path::connect / TngComp::connect panics exactly when the two paths are not connectable *)
Theorem C01_tng_comp_connect_panics_iff : forall p q,
  p_connect p q = None <-> p_connectable p q = false.
Proof. exact p_connect_none. Qed.
Print Assumptions C01_tng_comp_connect_panics_iff.

(* ... and otherwise the steps of the result are those of the two arguments (in all four gluing cases, with or
   without closing up), and the result is well formed *)
Theorem C01_tng_comp_connect_steps : forall p q r, pwf p -> pwf q -> p_connect p q = Some r ->
  Permutation (segs r) (segs p ++ segs q) /\ pwf r.
Proof. intros p q r Wp Wq E. split; [apply p_connect_segs; auto|eapply p_connect_pwf; eauto]. Qed.
Print Assumptions C01_tng_comp_connect_steps.

(* normalize / Tng::new: a permutation of the components, or a panic *)
Theorem C01_tng_new_is_sorted_permutation : forall cs t, tng_new cs = Some t ->
  Permutation t cs /\ tng_sorted t.
Proof.
  intros cs t E. split; [apply tng_sort_perm; auto|]. unfold tng_new in E. rewrite (tng_sort_eq _ _ E).
  apply isort_sorted.
Qed.
Print Assumptions C01_tng_new_is_sorted_permutation.

(* Tng::append_arc on ANY tangle (also a non-normalised one built by Tng::new) *)
Theorem C01_tng_append_arc_steps : forall t arc t', twf t -> pwf arc -> append_arc t arc = Some t' ->
  Permutation (tsegs t') (tsegs t ++ segs arc) /\ twf t'.
Proof. exact append_arc_segs. Qed.
Print Assumptions C01_tng_append_arc_steps.

(* Tng::connect / Tng::connected *)
Theorem C01_tng_connect_steps : forall t other t', twf t -> twf other -> tng_connect t other = Some t' ->
  Permutation (tsegs t') (tsegs t ++ tsegs other) /\ twf t'.
Proof. exact tng_connect_segs. Qed.
Print Assumptions C01_tng_connect_steps.

(* Tng::from_resolved: panics exactly on an unresolved crossing; otherwise the two strands of the crossing *)
Theorem C01_tng_from_resolved_steps : forall x,
  (is_resolved x = false -> tng_from_resolved x = None) /\
  (forall t, tng_from_resolved x = Some t ->
     is_resolved x = true /\ Permutation (tsegs t) (crossing_segs x) /\ twf t).
Proof. intros x. split; [apply from_resolved_none|apply from_resolved_segs]. Qed.
Print Assumptions C01_tng_from_resolved_steps.

(* gluing crossing by crossing (what TngComplex::append does with the tangle of every vertex) *)
Theorem C01_tng_of_crossings_steps : forall xs t, tng_of_crossings xs = Some t ->
  Permutation (tsegs t) (flat_map crossing_segs xs) /\ twf t.
Proof.
  intros xs t E. destruct (tng_of_crossings_from_segs xs [] t) as [P W]; auto. constructor.
Qed.
Print Assumptions C01_tng_of_crossings_steps.

(* euler_num = number of arcs = (number of labels) - (number of steps), with multiplicities *)
Theorem C01_tng_euler_num : forall t, twf t ->
  length (verts t) = length (tsegs t) + tng_euler_num t.
Proof. exact euler_num_spec. Qed.
Print Assumptions C01_tng_euler_num.

(* ================================================================================================== *)
(* 2. no panic and normal form under the degree bound                                                  *)
(* ================================================================================================== *)

(* connecting two simple arcs that meet at ends only: a simple arc or a simple circle on the union of the labels *)
Theorem C01_tng_comp_connect_simple : forall p q, simple p -> simple q -> p_connectable p q = true ->
  (forall v, In v (pedges p) -> In v (pedges q) -> is_end p v /\ is_end q v) ->
  exists r, p_connect p q = Some r /\ simple r /\
    (forall v, In v (pedges r) <-> In v (pedges p) \/ In v (pedges q)).
Proof.
  intros p q Sp Sq Hc Hpq. destruct (connect_simple p q Sp Sq Hc Hpq) as (r & E & Sr & Hv & _).
  exists r. auto.
Qed.
Print Assumptions C01_tng_comp_connect_simple.

(* one append_arc: no panic (in particular the second match comes after the first: `self.comps[i]` after
   `self.comps.remove(j)` is still the component that was extended), simple disjoint components, sorted *)
Theorem C01_tng_append_arc_normal_form : forall t arc, tng_inv t -> simple arc -> pclosed arc = false ->
  deg_le2 (tsegs t ++ segs arc) ->
  exists t', append_arc t arc = Some t' /\ tng_inv t' /\ tng_sorted t'.
Proof. exact append_arc_inv. Qed.
Print Assumptions C01_tng_append_arc_normal_form.

(* any sequence of append_arc *)
Theorem C01_tng_append_all_normal_form : forall arcs t, tng_ok t -> Forall simple_arc arcs ->
  deg_le2 (tsegs t ++ flat_map segs arcs) ->
  exists t', append_all t arcs = Some t' /\ tng_ok t' /\ Permutation (tsegs t') (tsegs t ++ flat_map segs arcs).
Proof. exact append_all_ok. Qed.
Print Assumptions C01_tng_append_all_normal_form.

(* Tng::connect of two glued tangles *)
Theorem C01_tng_connect_normal_form : forall t other, tng_inv t -> Forall simple other ->
  deg_le2 (tsegs t ++ tsegs other) ->
  exists t', tng_connect t other = Some t' /\ tng_ok t' /\ Permutation (tsegs t') (tsegs t ++ tsegs other).
Proof. exact tng_connect_ok. Qed.
Print Assumptions C01_tng_connect_normal_form.

Theorem C01_tng_from_resolved_normal_form : forall x, is_resolved x = true -> deg_le2 (crossing_segs x) ->
  exists t, tng_from_resolved x = Some t /\ tng_ok t /\ Permutation (tsegs t) (crossing_segs x).
Proof. exact from_resolved_ok. Qed.
Print Assumptions C01_tng_from_resolved_normal_form.

(* the tangle of any list of resolved crossings in which no label occurs more than twice *)
Theorem C01_tng_of_crossings_normal_form : forall xs,
  Forall (fun x => is_resolved x = true) xs -> labels_le2 xs ->
  exists t, tng_of_crossings xs = Some t /\ tng_ok t /\ Permutation (tsegs t) (flat_map crossing_segs xs).
Proof. exact tng_of_crossings_ok. Qed.
Print Assumptions C01_tng_of_crossings_normal_form.

(* ================================================================================================== *)
(* 3. the components are exactly the connected components of the union graph                           *)
(* ================================================================================================== *)
Theorem C01_tng_components_are_connected_components : forall t u v, tng_inv t -> In u (verts t) ->
  (conn (tsegs t) u v <-> exists c, In c t /\ In u (pedges c) /\ In v (pedges c)).
Proof. exact components_are_connected_components. Qed.
Print Assumptions C01_tng_components_are_connected_components.

(* for the tangle of a diagram: its labels are the labels of the crossings, and two labels lie on the same
   component iff they are joined by a chain of strands of the resolved crossings *)
Theorem C01_tng_of_crossings_components : forall xs,
  Forall (fun x => is_resolved x = true) xs -> labels_le2 xs ->
  exists t, tng_of_crossings xs = Some t /\ tng_ok t /\
    (forall v, In v (verts t) <-> In v (edge_labels xs)) /\
    (forall u v, In u (edge_labels xs) ->
       (conn (flat_map crossing_segs xs) u v <-> exists c, In c t /\ In u (pedges c) /\ In v (pedges c))).
Proof. exact crossings_components. Qed.
Print Assumptions C01_tng_of_crossings_components.

(* a closed diagram (every label exactly twice) glues to circles only *)
Theorem C01_tng_closed_diagram_circles : forall xs t, Forall (fun x => is_resolved x = true) xs ->
  (forall v, In v (edge_labels xs) -> count_occ Nat.eq_dec (edge_labels xs) v = 2) ->
  tng_of_crossings xs = Some t -> tng_is_closed t = true.
Proof. exact closed_diagram_circles. Qed.
Print Assumptions C01_tng_closed_diagram_circles.

(* relation with the C18 model of yui-link: the strand-through-a-crossing relation used there for
   `Link::components` is the adjacency of the step graph (for all four crossing types) ... *)
Theorem C01_tng_strand_relation : forall l e e',
  Yui.Proofs.C18Components.thru l e e' <-> adj (flat_map crossing_segs l) e e'.
Proof. exact thru_adj. Qed.
Print Assumptions C01_tng_strand_relation.

(* ... hence for a valid, completely resolved PD code (Model/Link.v) the glued tangle consists of circles only, as
   many as `Link::components` returns, with the same label sets *)
Theorem C01_tng_circles_are_link_components : forall l,
  Yui.Proofs.C18Base.Valid l -> Forall (fun x => is_resolved x = true) l ->
  exists cs t, components l = Some cs /\ tng_of_crossings l = Some t /\ tng_ok t /\ tng_is_closed t = true /\
    length cs = length t /\
    (forall c, In c cs -> exists c', In c' t /\ forall e, In e (pedges c) <-> In e (pedges c')) /\
    (forall c', In c' t -> exists c, In c cs /\ forall e, In e (pedges c) <-> In e (pedges c')).
Proof. exact tng_circles_are_link_components. Qed.
Print Assumptions C01_tng_circles_are_link_components.

(* ================================================================================================== *)
(* 4. the normal form depends on the multiset of steps only: order independence up to the library's == *)
(* ================================================================================================== *)

(* a simple path / cycle is determined by its steps up to reversal (and rotation), and that is what TngComp's ==
   (Path::unori_eq, with its early exits on length and label sum and its index arithmetic mod n) accepts *)
Theorem C01_tng_comp_eq_complete : forall c1 c2, simple c1 -> simple c2 -> pclosed c1 = pclosed c2 ->
  Permutation (segs c1) (segs c2) -> unori_eq c1 c2 = true.
Proof. exact same_segs_unori_eq. Qed.
Print Assumptions C01_tng_comp_eq_complete.

(* two tangles in normal form with the same steps: same number of components, in the same order, same kind, same
   label sets, and equal under the derived Tng == *)
Theorem C01_tng_normal_form_unique : forall t1 t2, tng_ok t1 -> tng_ok t2 ->
  Permutation (tsegs t1) (tsegs t2) ->
  Forall2 same_comp t1 t2 /\ tng_eqb t1 t2 = true.
Proof. intros t1 t2 O1 O2 Hp. split; [apply normal_form_unique|apply normal_form_eqb]; auto. Qed.
Print Assumptions C01_tng_normal_form_unique.

(* arcs appended in any order *)
Theorem C01_tng_append_order_independent : forall arcs arcs', Permutation arcs arcs' ->
  Forall simple_arc arcs -> deg_le2 (flat_map segs arcs) ->
  exists t1 t2, append_all [] arcs = Some t1 /\ append_all [] arcs' = Some t2 /\
                tng_ok t1 /\ tng_ok t2 /\ tng_eqb t1 t2 = true.
Proof. exact arcs_order_independent_eqb. Qed.
Print Assumptions C01_tng_append_order_independent.

(* crossings glued in any order *)
Theorem C01_tng_crossing_order_independent : forall xs ys, Permutation xs ys ->
  Forall (fun x => is_resolved x = true) xs -> labels_le2 xs ->
  exists t1 t2, tng_of_crossings xs = Some t1 /\ tng_of_crossings ys = Some t2 /\
                tng_ok t1 /\ tng_ok t2 /\ tng_eqb t1 t2 = true.
Proof. exact crossings_order_independent_eqb. Qed.
Print Assumptions C01_tng_crossing_order_independent.

(* Tng::connect is commutative up to == *)
Theorem C01_tng_connect_commutative : forall a b, tng_inv a -> tng_inv b -> deg_le2 (tsegs a ++ tsegs b) ->
  exists t1 t2, tng_connect a b = Some t1 /\ tng_connect b a = Some t2 /\
                tng_ok t1 /\ tng_ok t2 /\ tng_eqb t1 t2 = true.
Proof. exact tng_connect_comm_eqb. Qed.
Print Assumptions C01_tng_connect_commutative.

(* gluing two separately built halves = gluing crossing by crossing (the divide-and-conquer of the builder) *)
Theorem C01_tng_connect_halves : forall xs ys, Forall (fun x => is_resolved x = true) (xs ++ ys) ->
  labels_le2 (xs ++ ys) ->
  exists ta tb t1 t2, tng_of_crossings xs = Some ta /\ tng_of_crossings ys = Some tb /\
    tng_connect ta tb = Some t1 /\ tng_of_crossings (xs ++ ys) = Some t2 /\ tng_ok t1 /\ tng_eqb t1 t2 = true.
Proof. exact tng_connect_halves_eqb. Qed.
Print Assumptions C01_tng_connect_halves.

(* ================================================================================================== *)
(* 5. cobordisms (cob.rs, Model/TngCob.v): Euler number and degree under horizontal composition         *)
(* ================================================================================================== *)
(* [cc_*] = CobComp, [cob_*] = Cob; chi = 2 - 2 genus - nbdr_comps; deg = chi - #endpts/2 - 2 #dots.
   [cob_wf s]: the source tangles of the components are glued tangles and no label lies on more than two of their
   step ends (the components of the cobordisms of one cube edge, before they are connected).
   Vertical composition (Cob::stack, identity and inverse laws, cap_off, part_eval, LcCob): Model/TngStack.v and
   Properties/C01Stack.v.  NOT proved: the topological meaning of nbdr_comps and of the genus formula (that the asserts
   g >= 0, g even never fire). *)

(* the loops of nbdr_comps terminate (the model's fuel is never the reason for None) *)
Theorem C01_cob_nbdr_terminates : forall c, nbdr_fuel c <> None.
Proof. exact nbdr_fuel_sufficient. Qed.
Print Assumptions C01_cob_nbdr_terminates.

(* CobComp::connect, whenever it returns: the genus update makes chi(S u S') = chi(S) + chi(S') - #(shared end
   points) (= chi of the intersection, a union of arcs), the tangles are connected, the dots are added *)
Theorem C01_cob_connect_euler_partial : forall c o r, cc_connect c o = Some r ->
  exists x1 x2, cc_euler c = Some x1 /\ cc_euler o = Some x2 /\
    cc_euler r = Some (x1 + x2 - Z.of_nat (shared_endpts c o))%Z /\
    0 < shared_endpts c o /\
    tng_connect (csrc c) (csrc o) = Some (csrc r) /\ tng_connect (ctgt c) (ctgt o) = Some (ctgt r) /\
    cdx r = cdx c + cdx o /\ cdy r = cdy c + cdy o.
Proof. exact cc_connect_euler. Qed.
Print Assumptions C01_cob_connect_euler_partial.

(* the end points of a glued tangle are the labels of degree 1, and gluing removes the shared ones *)
Theorem C01_tng_endpts_after_gluing : forall t1 t2 t', tng_inv t1 -> tng_inv t2 -> tng_inv t' ->
  Permutation (tsegs t') (tsegs t1 ++ tsegs t2) -> deg_le2 (tsegs t1 ++ tsegs t2) ->
  (forall v, In v (tng_endpts t') <-> deg (tsegs t') v = 1) /\
  length (tng_endpts t') + 2 * length (filter (fun v => mem v (tng_endpts t2)) (tng_endpts t1))
  = length (tng_endpts t1) + length (tng_endpts t2).
Proof.
  intros t1 t2 t' I1 I2 I' Hp Hd. split; [intros v; apply endpts_deg1; auto|apply glued_endpts_length; auto].
Qed.
Print Assumptions C01_tng_endpts_after_gluing.

(* deg is additive under CobComp::connect (whenever it returns; full statement = without that proviso, which needs
   the topological correctness of nbdr_comps) *)
Theorem C01_cob_connect_deg_additive_partial : forall c o r, cc_connect c o = Some r ->
  tng_inv (csrc c) -> tng_inv (csrc o) -> deg_le2 (tsegs (csrc c) ++ tsegs (csrc o)) ->
  exists d1 d2, cc_deg c = Some d1 /\ cc_deg o = Some d2 /\ cc_deg r = Some (d1 + d2)%Z /\
    tng_ok (csrc r) /\ Permutation (tsegs (csrc r)) (tsegs (csrc c) ++ tsegs (csrc o)).
Proof. exact cc_connect_deg. Qed.
Print Assumptions C01_cob_connect_deg_additive_partial.

(* Cob::connect / Cob::connected (every component of `b` absorbs the components of `a` it touches): the degree of
   the result is the sum of the degrees (None = some nbdr_comps panics) *)
Theorem C01_cob_connect_cobs_deg_additive_partial : forall a b c, cob_wf (a ++ b) -> cob_connect a b = Some c ->
  cob_wf c /\
  cob_deg c = match cob_deg a, cob_deg b with Some x, Some y => Some (x + y)%Z | _, _ => None end.
Proof. exact cob_connect_deg. Qed.
Print Assumptions C01_cob_connect_cobs_deg_additive_partial.

Theorem C01_cob_connect_comp_deg_additive_partial : forall s c r, cob_wf (c :: s) -> cob_connect_comp s c = Some r ->
  cob_wf r /\
  cob_deg r = match cob_deg s, cc_deg c with Some x, Some y => Some (x + y)%Z | _, _ => None end.
Proof. exact cob_connect_comp_deg. Qed.
Print Assumptions C01_cob_connect_comp_deg_additive_partial.

(* invertible components: inv is an involution; cylinders have degree 0 *)
Theorem C01_cob_inv_involutive : forall c c', cc_inv c = Some c' ->
  cc_is_invertible c' = true /\ cc_inv c' = Some c.
Proof. exact cc_inv_involutive. Qed.
Print Assumptions C01_cob_inv_involutive.

Theorem C01_cob_cylinder_degree : forall p q,
  (pclosed p = true /\ pclosed q = true) \/
  (pclosed p = false /\ pclosed q = false /\ p_connectable q p = true /\ hd 0 (pedges p) <> last (pedges p) 0) ->
  cc_is_invertible (cc_plain [p] [q] 0) = true /\
  cc_nbdr (cc_plain [p] [q] 0) = Some (if pclosed p then 2 else 1) /\
  cc_euler (cc_plain [p] [q] 0) = Some (if pclosed p then 0 else 1)%Z /\
  cc_deg (cc_plain [p] [q] 0) = Some 0%Z.
Proof. exact cc_cylinder_deg. Qed.
Print Assumptions C01_cob_cylinder_degree.

(* ================================================================================================== *)
(* 6. examples (non-vacuity) and the corner cases of the real code that the model mirrors              *)
(* ================================================================================================== *)

(* the trefoil [1,4,2,5],[3,6,4,1],[5,2,6,3] resolved V, H, V: hypotheses of the theorems hold, one circle *)
Definition ex_xs : list crossing := [mkX V 1 4 2 5; mkX H 3 6 4 1; mkX V 5 2 6 3].
Example C01_tng_example_trefoil :
  Forall (fun x => is_resolved x = true) ex_xs /\ labels_le2 ex_xs /\
  tng_of_crossings ex_xs = Some [mkP [3; 6; 2; 4; 1; 5] true] /\
  tng_of_crossings (rev ex_xs) = Some [mkP [4; 1; 5; 3; 6; 2] true] /\
  tng_eqb [mkP [3; 6; 2; 4; 1; 5] true] [mkP [4; 1; 5; 3; 6; 2] true] = true.
Proof.
  split; [repeat constructor|]. split; [|repeat split; reflexivity].
  intros v. do 7 (destruct v as [|v]; [cbn; repeat constructor|]). cbn. repeat constructor.
Qed.

(* an open tangle: two of the three crossings *)
Example C01_tng_example_open :
  tng_of_crossings [mkX V 1 4 2 5; mkX H 3 6 4 1] = Some [mkP [2; 4; 1; 5] false; mkP [3; 6] false] /\
  tng_euler_num [mkP [2; 4; 1; 5] false; mkP [3; 6] false] = 2.
Proof. split; reflexivity. Qed.

(* the empty circle: arc[1].connect(arc[1]) is the circle with no label; sorting it next to another circle
   panics (min_edge of an empty path) *)
Example C01_tng_example_empty_circle :
  p_connect (mkP [1] false) (mkP [1] false) = Some (mkP [] true) /\
  append_arc [mkP [1] false] (mkP [1] false) = Some [mkP [] true] /\
  tng_connect [mkP [] true] [mkP [5] true] = None.
Proof. repeat split; reflexivity. Qed.

(* append_arc on a NON-normalised tangle (Tng::new of connectable arcs): the second match precedes the first,
   `self.comps[i]` after `remove(j)` is another component, and the call panics.  Unreachable from glued tangles
   (C01_tng_append_arc_normal_form). *)
Example C01_tng_example_index_shift :
  tng_new [mkP [0; 1] false; mkP [1; 2] false; mkP [5; 6] false] = Some [mkP [0; 1] false; mkP [1; 2] false; mkP [5; 6] false] /\
  append_arc [mkP [0; 1] false; mkP [1; 2] false; mkP [5; 6] false] (mkP [2; 5] false) = None /\
  append_arc [mkP [1; 2] false; mkP [5; 6] false] (mkP [2; 5] false) = Some [mkP [1; 2; 5; 6] false].
Proof. repeat split; reflexivity. Qed.

(* the unit test `connect_incr_genus` of cob.rs: two parallel strands joined twice gain a handle *)
Definition ex_c0 := cc_plain [mkP [1; 2] false; mkP [3; 4] false] [mkP [1; 2] false; mkP [3; 4] false] 0.
Example C01_cob_example_incr_genus :
  exists c1 c2, cc_connect ex_c0 (cc_id (mkP [1; 3] false)) = Some c1 /\ cgenus c1 = 1 /\ cc_euler c1 = Some (-1)%Z /\
    cc_connect c1 (cc_id (mkP [2; 4] false)) = Some c2 /\ cgenus c2 = 1 /\ cc_euler c2 = Some (-2)%Z /\
    cc_deg ex_c0 = Some (-2)%Z /\ cc_deg c2 = Some (-2)%Z.
Proof. eexists. eexists. repeat split; reflexivity. Qed.
