(* C03 (continued) - the library's route from the TOTAL homology to a bigraded table, KhHomology::into_bigraded
   (yui-khovanov/src/kh/homology.rs:70-101) with collect_gen_info (misc.rs:52-74), as a model
   (Model/IntoBigraded.v) and theorems about it.  Property theorems only; every proof is [exact <lemma>].

   Input of the model = exactly what the Rust code reads: per homological degree i the q-degrees of the terms of
   every free generator ([si_free]) and (order, q-degrees of the terms) of every torsion generator ([si_tors]) of the
   summand of the total homology, in the order k = 0 .. rank+|tors|-1.  A generator is filed under
   q = [chain_q_deg] = the MINIMUM q-degree of its terms.  Output = the cells (rank, torsion orders in the order of
   k) of the new grid, whose support is h_range x q_range.step_by(2); [ib_get] is Grid::get (zero off the support).
   The model is tied to the code on every sampled link by the `ig` cases of the check (exact comparison of all
   non-zero cells, torsion order and support shape; the generators are dumped through the public API).

   Vocabulary: [gens_at hs i] = the generators of degree i; [regroup q_of j gs] = (number of free generators, orders
   of the torsion generators in order) among those gs that q_of files in q-degree j; [lives_in j qs] = all terms
   of the chain have q-degree j; [homogeneous qs] = all terms have one q-degree; [same_parity hs] = the q-degrees
   under which the generators are filed have one parity (true for every link: q = number of components mod 2;
   without it step_by(2) drops cells, C03_into_bigraded_step2_drops); [total_rank], [all_tors] = sum of the ranks /
   concatenation of the torsion lists of a list of cells; [ib_row i] = the cells of homological degree i.

   Decomposed generators ([dgen]) for the comparison with the cell-by-cell answer: a generator written as the sum
   of its q-homogeneous parts, part (q, c) representing in H^(i,q) a class of kind c (CTriv: zero, CFree: infinite
   order, CTor t: order t); route A sees only its kind (free if some part is free, else torsion of order the product
   of the orders - the order of the sum when the orders are pairwise coprime) and the q-degrees of its terms
   ([erase], [summand_of_dgens]).  [located_A] = the located cyclic summands route A produces (one per generator,
   at the minimal q-degree), [located_cellwise] = those of the cell-by-cell decomposition (one per non-trivial
   part), under the assumption that the parts of all generators together are a direct-sum decomposition. *)
From Coq Require Import List Bool ZArith Permutation.
Require Import Yui.Model.IntoBigraded.
Require Import Yui.Proofs.C03BigTable Yui.Proofs.C03BigGrid Yui.Proofs.C03BigCons Yui.Proofs.C03BigAgree
  Yui.Proofs.C03BigWitness.
Import ListNotations.
Open Scope Z_scope.

(* ---------- the table of collect_gen_info and the grid of into_bigraded, exactly ---------- *)
(* the table entry (i, j) is the regrouping of the generators of degree i by the minimal q-degree; no hypothesis *)
Theorem C03_collect_gen_info_regroup : forall hs i j,
  cell_of (tbl_find (i, j) (collect_gen_info hs)) = regroup chain_q_deg j (gens_at hs i).
Proof. exact collect_gen_info_regroup. Qed.
Print Assumptions C03_collect_gen_info_regroup.

(* the grid: cell (i, j) is the table entry when (i, j) is on the support and zero otherwise; the support is
   [min i, max i] x {min q, min q + 2, .. <= max q} over the keys of the table, without repetition *)
Theorem C03_into_bigraded_grid : forall hs,
  let t := collect_gen_info hs in
  (forall i j, In (i, j) (ib_support t) -> ib_get (i, j) (into_bigraded hs) = regroup chain_q_deg j (gens_at hs i)) /\
  (forall i j, ~ In (i, j) (ib_support t) -> ib_get (i, j) (into_bigraded hs) = zero_cell) /\
  (forall i j, In (i, j) (ib_support t) <->
     (fst (range_of (h_keys t)) <= i <= snd (range_of (h_keys t)) /\ (i - fst (range_of (h_keys t))) mod 1 = 0) /\
     (fst (range_of (q_keys t)) <= j <= snd (range_of (q_keys t)) /\ (j - fst (range_of (q_keys t))) mod 2 = 0)) /\
  NoDup (ib_support t) /\
  map fst (into_bigraded hs) = ib_support t.
Proof. exact into_bigraded_grid. Qed.
Print Assumptions C03_into_bigraded_grid.

(* with q-degrees of one parity no cell is dropped: every cell of route A is the regrouping *)
Theorem C03_into_bigraded_cell : forall hs, same_parity hs -> forall i j,
  ib_get (i, j) (into_bigraded hs) = regroup chain_q_deg j (gens_at hs i).
Proof. exact into_bigraded_cell_parity. Qed.
Print Assumptions C03_into_bigraded_cell.

(* ---------- (a) q-homogeneous generators: route A is the regrouping of the total summand, nothing is lost ---------- *)
Theorem C03_into_bigraded_homogeneous : forall hs i s,
  NoDup (map fst hs) -> In (i, s) hs -> same_parity hs -> all_homogeneous s ->
  (forall j, ib_get (i, j) (into_bigraded hs)
             = (length (filter (lives_in j) (si_free s)), map fst (filter (fun p => lives_in j (snd p)) (si_tors s)))) /\
  total_rank (ib_row i (into_bigraded hs)) = length (si_free s) /\
  Permutation (all_tors (ib_row i (into_bigraded hs))) (map fst (si_tors s)).
Proof. exact into_bigraded_homogeneous_full. Qed.
Print Assumptions C03_into_bigraded_homogeneous.

(* the number the check reports as evidence is 0 exactly in the situation of (a) *)
Theorem C03_count_inhomogeneous_zero : forall hs,
  count_inhomogeneous hs = O -> Forall (fun ih => all_homogeneous (snd ih)) hs.
Proof. exact count_inhomogeneous_zero. Qed.
Print Assumptions C03_count_inhomogeneous_zero.

(* ---------- (b) conservation: route A only moves summands ---------- *)
(* the table of collect_gen_info: always *)
Theorem C03_collect_gen_info_conservation : forall hs,
  total_rank (tbl_cells (collect_gen_info hs)) = sum_ranks hs /\
  Permutation (all_tors (tbl_cells (collect_gen_info hs))) (sum_tors hs).
Proof. exact collect_gen_info_conservation. Qed.
Print Assumptions C03_collect_gen_info_conservation.

(* the grid of into_bigraded: whenever the q-degrees have one parity (homogeneous or not), in total and per
   homological degree *)
Theorem C03_into_bigraded_conservation : forall hs, same_parity hs ->
  (total_rank (into_bigraded hs) = sum_ranks hs /\ Permutation (all_tors (into_bigraded hs)) (sum_tors hs)) /\
  (forall i,
     total_rank (ib_row i (into_bigraded hs)) = length (filter (fun g => is_free_b (fst g)) (gens_at hs i)) /\
     Permutation (all_tors (ib_row i (into_bigraded hs))) (flat_map (fun g => tor_list (fst g)) (gens_at hs i))) /\
  (forall i s, NoDup (map fst hs) -> In (i, s) hs ->
     total_rank (ib_row i (into_bigraded hs)) = length (si_free s) /\
     Permutation (all_tors (ib_row i (into_bigraded hs))) (map fst (si_tors s))).
Proof. exact into_bigraded_conservation_full. Qed.
Print Assumptions C03_into_bigraded_conservation.

(* the parity hypothesis is needed by the code as it is: a table entry of the other parity is not on the grid *)
Theorem C03_into_bigraded_step2_drops :
  map fst (collect_gen_info mixed_hs) = [(0, 0); (0, 1)] /\
  into_bigraded mixed_hs = [((0, 0), (1%nat, []))] /\
  total_rank (into_bigraded mixed_hs) = 1%nat /\ sum_ranks mixed_hs = 2%nat /\ ~ same_parity mixed_hs.
Proof. exact step2_drops. Qed.
Print Assumptions C03_into_bigraded_step2_drops.

(* ---------- (c) the known finding in model form ---------- *)
(* a generator of order 6 = lcm(2,3) whose order-2 part lives in q = 44 and whose order-3 part lives in q = 46:
   route A returns the single cell Z/6 at q = 44, the cell-by-cell answer is Z/2 at 44 and Z/3 at 46 *)
Theorem C03_into_bigraded_refuted_inhomogeneous :
  exists (ds : list dgen) (i : Z),
    Forall (fun d => nontriv d <> []) ds /\
    same_parity [(i, summand_of_dgens ds)] /\
    count_inhomogeneous [(i, summand_of_dgens ds)] = 1%nat /\
    into_bigraded [(i, summand_of_dgens ds)] = [((i, 44), (O, [6]))] /\
    cell_of_located 44 (located_cellwise ds) = (O, [2]) /\
    cell_of_located 46 (located_cellwise ds) = (O, [3]) /\
    ~ Permutation (located_A ds) (located_cellwise ds).
Proof. exact refuted_inhomogeneous. Qed.
Print Assumptions C03_into_bigraded_refuted_inhomogeneous.

(* the shape of the recorded witness T(5,6) + trefoil in degree 14 (orders 2 and 30 over q = 44, 46) *)
Theorem C03_into_bigraded_witness_shape :
  into_bigraded [(14, summand_of_dgens witness_shape_ds)] = [((14, 44), (O, [2; 30]))] /\
  cell_of_located 44 (located_cellwise witness_shape_ds) = (O, [10]) /\
  cell_of_located 46 (located_cellwise witness_shape_ds) = (O, [2; 3]) /\
  count_inhomogeneous [(14, summand_of_dgens witness_shape_ds)] = 2%nat.
Proof. exact witness_shape. Qed.
Print Assumptions C03_into_bigraded_witness_shape.

(* ---------- (d) when does route A give the cell-by-cell decomposition ---------- *)
(* route A's cell (i, j) on a summand given by decomposed generators is cell j of [located_A] *)
Theorem C03_into_bigraded_located : forall hs i ds j,
  NoDup (map fst hs) -> In (i, summand_of_dgens ds) hs -> same_parity hs ->
  ib_get (i, j) (into_bigraded hs) = cell_of_located j (located_A ds).
Proof. exact into_bigraded_located. Qed.
Print Assumptions C03_into_bigraded_located.

(* the located summands of route A are those of the cell-by-cell decomposition (as multisets) exactly when every
   generator has ONE non-trivial homogeneous part and that part sits in the minimal q-degree of the generator's
   terms; every generator is assumed to represent a non-zero class *)
Theorem C03_into_bigraded_agrees_iff : forall ds, Forall (fun d => nontriv d <> []) ds ->
  (Permutation (located_A ds) (located_cellwise ds) <-> Forall single_at_min ds).
Proof. exact agree_iff. Qed.
Print Assumptions C03_into_bigraded_agrees_iff.

(* ... and then the two lists are equal and every cell of route A is the cell of the decomposition *)
Theorem C03_into_bigraded_agrees : forall hs i ds,
  NoDup (map fst hs) -> In (i, summand_of_dgens ds) hs -> same_parity hs -> Forall single_at_min ds ->
  located_A ds = located_cellwise ds /\
  forall j, ib_get (i, j) (into_bigraded hs) = cell_of_located j (located_cellwise ds).
Proof. exact into_bigraded_agrees_full. Qed.
Print Assumptions C03_into_bigraded_agrees.

(* ---------- non-vacuity: the total homology of the left-handed trefoil ---------- *)
Example C03_into_bigraded_example :
  NoDup (map fst trefoil_hs) /\ same_parity trefoil_hs /\ Forall (fun ih => all_homogeneous (snd ih)) trefoil_hs /\
  count_inhomogeneous trefoil_hs = O /\
  filter (fun c => negb (Nat.eqb (fst (snd c)) 0 && match snd (snd c) with [] => true | _ => false end))
    (into_bigraded trefoil_hs)
  = [((-3, -9), (1%nat, [])); ((-2, -7), (O, [2])); ((-2, -5), (1%nat, [])); ((0, -3), (1%nat, [])); ((0, -1), (1%nat, []))].
Proof. exact trefoil_example. Qed.
