(* C05 - Every Khovanov complex returned is a graded chain complex, over any ring.
   The returned complexes are validated per output by a checker written in Gallina (Model/KhCheck.v):
   shapes, d.d = 0 over Z[H,T] resp. (Z/m)[H,T], and homogeneity of quantum degree 0 with deg H = -2,
   deg T = -4; the (H,T)-complex specialised at integer points is compared with the directly built
   homology.  Theorems: what a passing verdict means, and that evaluation H -> h, T -> t is a ring
   homomorphism on the checker's polynomial representation (so specialisation commutes with the matrix
   products the checker forms).  That EVERY link yields a complex is validated per output, not proved. *)
From Coq Require Import List Bool ZArith.
Require Import Yui.Model.KhCheck Yui.Proofs.KhCheckP.
Import ListNotations.
Open Scope Z_scope.

Theorem C05_verdict : forall m gr c,
  check_complex m gr c = 0%nat -> shapes_ok c = true /\ dd_zero m c = true /\ (gr = true -> graded c = true).
Proof. exact check_complex_ok. Qed.
Print Assumptions C05_verdict.

Theorem C05_eval_add : forall h t a b, p_eval h t (p_add 0 a b) = p_eval h t a + p_eval h t b.
Proof. exact eval_add. Qed.
Print Assumptions C05_eval_add.

Theorem C05_eval_mul : forall h t a b, p_eval h t (p_mul 0 a b) = p_eval h t a * p_eval h t b.
Proof. exact eval_mul. Qed.
Print Assumptions C05_eval_mul.

Theorem C05_eval_neg : forall h t a, p_eval h t (p_neg 0 a) = - p_eval h t a.
Proof. exact eval_neg. Qed.
Print Assumptions C05_eval_neg.

Theorem C05_eval_norm : forall h t p, p_eval h t (p_norm 0 p) = p_eval h t p.
Proof. exact eval_norm. Qed.
Print Assumptions C05_eval_norm.

Theorem C05_homogeneous : forall a d, p_hom_deg a = Some d -> forall e, In e a -> mono_qdeg (fst e) = d.
Proof. exact p_hom_deg_spec. Qed.
Print Assumptions C05_homogeneous.

(* non-vacuity: a two-term complex  <x> --(H)--> <y>  with q(x) = q(y) - 2 passes; with a wrong degree it fails clause 3;
   a composite H . H <> 0 fails clause 2 *)
Example C05_checker_accepts :
  check_complex 0 true [mk_level [1] [((0, 0)%nat, [((1, 0)%nat, 1)])]; mk_level [3] []] = 0%nat.
Proof. vm_compute. reflexivity. Qed.
Example C05_checker_rejects_grading :
  check_complex 0 true [mk_level [1] [((0, 0)%nat, [((1, 0)%nat, 1)])]; mk_level [5] []] = 3%nat.
Proof. vm_compute. reflexivity. Qed.
Example C05_checker_rejects_dd :
  check_complex 0 false [mk_level [1] [((0, 0)%nat, [((1, 0)%nat, 1)])];
                         mk_level [3] [((0, 0)%nat, [((1, 0)%nat, 1)])]; mk_level [5] []] = 2%nat.
Proof. vm_compute. reflexivity. Qed.
