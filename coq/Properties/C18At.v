(* C18 (crossing indexing): Link::crossing_index / crossing_at / crossing_at_mut / resolved_at address the
   i-th UNRESOLVED crossing of the data vector.  Model: Model/LinkAt.v (crossing_index, crossing_at,
   resolve_via_index) and Model/Link.v (resolve_at, resolved_at); proofs: Proofs/C18At.v.
   Statements only. *)
From Coq Require Import List Arith Bool.
Require Import Yui.Model.Link Yui.Model.LinkAt Yui.Proofs.C18At.
Import ListNotations.

(* crossing_at(i) is the i-th element of the list of unresolved crossings (data order) ... *)
Theorem C18_crossing_at : forall l i,
  crossing_at l i = nth_error (filter (fun c => negb (is_resolved c)) l) i.
Proof. exact crossing_at_nth. Qed.
(* ... and panics exactly when i is not smaller than crossing_num *)
Theorem C18_crossing_at_panics : forall l i, crossing_at l i = None <-> crossing_num l <= i.
Proof. exact crossing_at_none_iff. Qed.

(* the data index returned by crossing_index: in range, an unresolved entry, preceded by exactly i unresolved
   entries (NOT by i entries) *)
Theorem C18_crossing_index : forall l i j, crossing_index l i = Some j ->
  j < length l /\ (exists c, nth_error l j = Some c /\ is_resolved c = false) /\ crossing_num (firstn j l) = i.
Proof. exact crossing_index_some_spec. Qed.
Theorem C18_crossing_index_defined : forall l i, i < crossing_num l <-> exists j, crossing_index l i = Some j.
Proof. exact crossing_index_some_iff. Qed.

(* the two call forms agree: resolved_at(i, r) = clone, crossing_at_mut(i).resolve(r) through the index *)
Theorem C18_resolved_at_forms : forall l i r, resolved_at l i r = resolve_via_index l i r.
Proof. exact resolve_at_via_index. Qed.

(* resolved_at(i, r) rewrites exactly the entry of the i-th unresolved crossing into its smoothing *)
Theorem C18_resolved_at_entry : forall l i r, i < crossing_num l ->
  exists j c c', crossing_index l i = Some j /\ nth_error l j = Some c /\ nth_error (unresolved l) i = Some c /\
                 resolve_c c r = Some c' /\ is_resolved c' = true /\
                 resolved_at l i r = Some (firstn j l ++ c' :: skipn (S j) l).
Proof. exact resolved_at_entry. Qed.

(* afterwards the remaining unresolved crossings are the old ones without the i-th, in the same order *)
Theorem C18_resolved_at_remaining : forall l i r l', resolved_at l i r = Some l' ->
  unresolved l' = firstn i (unresolved l) ++ skipn (S i) (unresolved l).
Proof. exact unresolved_resolve_at. Qed.

(* smoothing two crossings one at a time is independent of the order (indices i < k of the original diagram;
   once i is smoothed the old k is addressed as k - 1); both sides panic together *)
Theorem C18_resolved_at_commute : forall l i k a b, i < k ->
  match resolved_at l i a with Some l1 => resolved_at l1 (k - 1) b | None => None end =
  match resolved_at l k b with Some l2 => resolved_at l2 i a | None => None end.
Proof. exact resolved_at_commute. Qed.

(* non-vacuity: on the trefoil with crossing 0 smoothed, index 1 is data entry 2 *)
Example C18_crossing_at_example :
  exists l1, resolved_at trefoil 0 false = Some l1 /\
    crossing_index l1 1 = Some 2 /\ crossing_at l1 1 = Some (mkX X 5 2 6 3) /\
    resolved_at l1 1 true = Some [mkX H 1 4 2 5; mkX X 3 6 4 1; mkX V 5 2 6 3] /\
    crossing_at l1 2 = None.
Proof. exact trefoil_example. Qed.

Print Assumptions C18_crossing_at.
Print Assumptions C18_crossing_at_panics.
Print Assumptions C18_crossing_index.
Print Assumptions C18_crossing_index_defined.
Print Assumptions C18_resolved_at_forms.
Print Assumptions C18_resolved_at_entry.
Print Assumptions C18_resolved_at_remaining.
Print Assumptions C18_resolved_at_commute.
