(* C16 (rest) - the observers of the polynomial types that Properties/C16.v left to the differential run:
   (a) checked monomial division / divides (Var, Var2, Var3, MultiDeg = MultiVar): exact, not only sound;
   (b) PolyBase<MultiVar>::lead_term_for(k);
   (c) Ring::inv / is_unit / normalizing_unit of PolyBase, and is_unit / inv of the monomial types;
   (d) is_const / const_term / is_one, pow (incl. the signed entry points).
   Property theorems only; every proof is [exact <lemma>] and is followed by Print Assumptions.

   Models: Model/Mono.v, Model/Poly.v (unchanged).  [p_pow_z] (Pow<i32/i64/isize>) is defined in
   Proofs/C16RestPowZ.v (definitions only) as a line-by-line mirror of poly.rs impl_pow_signed.
   Quantification: every exponent dictionary [e] with [exp_laws e eZ] (proved for N = usize, Z = isize in
   Properties/C16.v), every monomial dictionary with [mono_laws] (+ [mono_unit_laws], proved below for the
   four families), every commutative ring with [ring_laws], every unit dictionary with [unit_laws]
   (Base/Ring.v: rinv a = Some b -> a*b = 1; is_unit a <-> rinv a is Some; a*b = 1 -> is_unit a;
   rnunit a is a unit; rnunit (a * rnunit a) = 1; ...).

   Vocabulary (Proofs/C16*.v): WF o ok p = keys distinct, no zero coefficient, every key valid;
   peq m o p q = equal coefficient functions; Reduced e d = MultiDeg invariant; coeff = hash-map lookup. *)
From Coq Require Import List Bool Arith NArith ZArith Lia.
Require Import Yui.Base.Ring Yui.Model.Lc Yui.Model.Mono Yui.Model.Poly.
Require Import Yui.Proofs.C16Lc Yui.Proofs.C16Mono Yui.Proofs.C16MDeg Yui.Proofs.C16Poly.
Require Import Yui.Proofs.C16RestPowZ Yui.Proofs.C16RestMono Yui.Proofs.C16RestMDeg Yui.Proofs.C16RestLead Yui.Proofs.C16RestUnit
               Yui.Proofs.C16RestDomain Yui.Proofs.C16RestPack.
Import ListNotations.

(* ================= (a) monomial division is exact ================= *)
(* Var: x / y = Some z <-> z * y = x;  y.divides(x) <-> the division does not panic;
   it is defined iff the exponent type is signed or deg y <= deg x *)
Theorem C16Rest_var_div : forall I (e : exp_ops I) eZ, exp_laws e eZ -> forall x y : I,
  (forall z, mdiv (var_mono e) x y = Some z <-> mmul (var_mono e) z y = x) /\
  (mdivides (var_mono e) y x = true <-> exists z, mdiv (var_mono e) x y = Some z) /\
  ((exists z, mdiv (var_mono e) x y = Some z) <-> (esigned e = true \/ (eZ y <= eZ x)%Z)).
Proof. exact (@var_div_pack). Qed.
Print Assumptions C16Rest_var_div.

Theorem C16Rest_var2_div : forall I (e : exp_ops I) eZ, exp_laws e eZ -> forall x y : I * I,
  (forall z, mdiv (var2_mono e) x y = Some z <-> mmul (var2_mono e) z y = x) /\
  (mdivides (var2_mono e) y x = true <-> exists z, mdiv (var2_mono e) x y = Some z) /\
  ((exists z, mdiv (var2_mono e) x y = Some z) <->
   (esigned e = true \/ ((eZ (fst y) <= eZ (fst x))%Z /\ (eZ (snd y) <= eZ (snd x))%Z))).
Proof. exact (@var2_div_pack). Qed.
Print Assumptions C16Rest_var2_div.

Theorem C16Rest_var3_div : forall I (e : exp_ops I) eZ, exp_laws e eZ -> forall x y : I * I * I,
  (forall z, mdiv (var3_mono e) x y = Some z <-> mmul (var3_mono e) z y = x) /\
  (mdivides (var3_mono e) y x = true <-> exists z, mdiv (var3_mono e) x y = Some z) /\
  ((exists z, mdiv (var3_mono e) x y = Some z) <->
   (esigned e = true \/ ((eZ (v3_0 y) <= eZ (v3_0 x))%Z /\ (eZ (v3_1 y) <= eZ (v3_1 x))%Z /\ (eZ (v3_2 y) <= eZ (v3_2 x))%Z))).
Proof. exact (@var3_div_pack). Qed.
Print Assumptions C16Rest_var3_div.

(* MultiDeg / MultiVar (on reduced values): the same, the quotient is the pointwise difference and is
   reduced again; all_leq is the pointwise comparison *)
Theorem C16Rest_mvar_div : forall I (e : exp_ops I) eZ, exp_laws e eZ -> forall x y : @mdeg I,
  Reduced e x -> Reduced e y ->
  (forall z, md_sub e x y = Some z <-> Reduced e z /\ md_add e z y = x) /\
  (mdivides (mvar_mono e) y x = true <-> exists z, md_sub e x y = Some z) /\
  ((exists z, md_sub e x y = Some z) <-> (esigned e = true \/ forall i, (eZ (md_at e y i) <= eZ (md_at e x i))%Z)) /\
  (forall z, md_sub e x y = Some z -> forall i, eZ (md_at e z i) = (eZ (md_at e x i) - eZ (md_at e y i))%Z) /\
  (md_all_leq e y x = true <-> forall i, (eZ (md_at e y i) <= eZ (md_at e x i))%Z).
Proof. exact (@mvar_div_pack). Qed.
Print Assumptions C16Rest_mvar_div.

(* consequences for every monomial type with the laws: divides is divisibility, division undoes the
   product, the product is cancellative *)
Theorem C16Rest_div_laws_meaning : forall X (m : mono_ops X) (ok : X -> Prop),
  mono_div_laws m ok <->
  ((forall x y z, ok x -> ok y -> (mdiv m x y = Some z <-> ok z /\ mmul m z y = x)) /\
   (forall x y, ok x -> ok y -> (mdivides m y x = true <-> exists z, mdiv m x y = Some z))).
Proof. exact (fun X m ok => conj (fun H => conj (mdiv_iff m ok H) (mdivides_iff m ok H))
                                 (fun H => mk_mono_div_laws X m ok (proj1 H) (proj2 H))). Qed.
Print Assumptions C16Rest_div_laws_meaning.

Theorem C16Rest_div_laws : forall I (e : exp_ops I) eZ, exp_laws e eZ ->
  mono_div_laws (var_mono e) any /\ mono_div_laws (var2_mono e) any /\ mono_div_laws (var3_mono e) any /\
  mono_div_laws (mvar_mono e) (Reduced e).
Proof.
  exact (fun I e eZ EL => conj (var_div_laws e eZ EL) (conj (var2_div_laws e eZ EL) (conj (var3_div_laws e eZ EL)
        (mvar_div_laws e eZ EL)))).
Qed.
Print Assumptions C16Rest_div_laws.

Theorem C16Rest_div_generic : forall X (m : mono_ops X) (ok : X -> Prop), mono_laws m ok -> mono_div_laws m ok ->
  (forall x y, ok x -> ok y -> (mdivides m y x = true <-> exists z, ok z /\ mmul m z y = x)) /\
  (forall x y, ok x -> ok y -> mdiv m (mmul m x y) y = Some x) /\
  (forall x y z, ok x -> ok y -> ok z -> mmul m x z = mmul m y z -> x = y).
Proof.
  exact (fun X m ok ML DL => conj (mdivides_spec m ok DL) (conj (mdiv_mul m ok ML DL) (mmul_cancel_r m ok ML))).
Qed.
Print Assumptions C16Rest_div_generic.

(* ================= (b) lead_term_for ================= *)
(* among the terms with a POSITIVE exponent of x_k: the unique maximum for (exponent of x_k, then cmp_grlex);
   None iff no stored term has a positive exponent of x_k *)
Theorem C16Rest_lead_term_for : forall I R (e : exp_ops I) eZ, exp_laws e eZ -> forall (o : ring_ops R), ring_laws o ->
  forall (p : lc (@mdeg I) R) k, WF o (Reduced e) p ->
  match lead_term_for e p k with
  | None => forall x, coeff (md_eqb e) o p x <> rzero o -> (eZ (md_at e x k) <= 0)%Z
  | Some (x, c) =>
      c = coeff (md_eqb e) o p x /\ c <> rzero o /\ (0 < eZ (md_at e x k))%Z /\
      forall y, coeff (md_eqb e) o p y <> rzero o -> (0 < eZ (md_at e y k))%Z -> y <> x ->
        (eZ (md_at e y k) < eZ (md_at e x k))%Z \/
        (md_at e y k = md_at e x k /\ md_cmp_grlex e y x = Lt)
  end.
Proof. exact (fun I R e eZ EL o L => lead_term_for_spec e eZ EL o). Qed.
Print Assumptions C16Rest_lead_term_for.

(* ================= (c) units ================= *)
Theorem C16Rest_unit_laws_meaning : forall X (m : mono_ops X) (ok : X -> Prop),
  mono_unit_laws m ok <->
  ((forall x y, ok x -> minv m x = Some y -> ok y /\ mmul m x y = mone m) /\
   (forall x, ok x -> (mis_unit m x = true <-> exists y, minv m x = Some y)) /\
   (forall x y, ok x -> ok y -> mmul m x y = mone m -> mis_unit m x = true)).
Proof. exact (fun X m ok => conj (fun H => conj (minv_some m ok H) (conj (mis_unit_iff m ok H) (munit_complete m ok H)))
                                 (fun H => mk_mono_unit_laws X m ok (proj1 H) (proj1 (proj2 H)) (proj2 (proj2 H)))). Qed.
Print Assumptions C16Rest_unit_laws_meaning.

(* is_unit / inv of the four monomial families: sound, is_unit <-> inv is Some, complete (every invertible
   monomial is a unit); signed exponents: everything is a unit, inv negates; unsigned: only 1 *)
Theorem C16Rest_mono_units : forall I (e : exp_ops I) eZ, exp_laws e eZ ->
  mono_unit_laws (var_mono e) any /\ mono_unit_laws (var2_mono e) any /\ mono_unit_laws (var3_mono e) any /\
  mono_unit_laws (mvar_mono e) (Reduced e) /\
  (esigned e = true ->
     (forall x, mis_unit (var_mono e) x = true) /\ (forall x, mis_unit (var2_mono e) x = true) /\
     (forall x, mis_unit (var3_mono e) x = true) /\ (forall x, mis_unit (mvar_mono e) x = true) /\
     (forall x, minv (var_mono e) x = Some (eneg e x)) /\
     (forall x, minv (var2_mono e) x = Some (eneg e (fst x), eneg e (snd x))) /\
     (forall x, minv (var3_mono e) x = Some (eneg e (v3_0 x), eneg e (v3_1 x), eneg e (v3_2 x))) /\
     (forall x, minv (mvar_mono e) x = Some (md_neg e x))) /\
  (esigned e = false ->
     (forall x, mis_unit (var_mono e) x = true <-> x = mone (var_mono e)) /\
     (forall x, mis_unit (var2_mono e) x = true <-> x = mone (var2_mono e)) /\
     (forall x, mis_unit (var3_mono e) x = true <-> x = mone (var3_mono e)) /\
     (forall x, mis_unit (mvar_mono e) x = true <-> x = mone (mvar_mono e)) /\
     (forall x, minv (var_mono e) x = if mis_unit (var_mono e) x then Some (mone (var_mono e)) else None) /\
     (forall x, minv (var2_mono e) x = if mis_unit (var2_mono e) x then Some (mone (var2_mono e)) else None) /\
     (forall x, minv (var3_mono e) x = if mis_unit (var3_mono e) x then Some (mone (var3_mono e)) else None) /\
     (forall x, minv (mvar_mono e) x = if mis_unit (mvar_mono e) x then Some (mone (mvar_mono e)) else None)).
Proof. exact (@mono_units_pack). Qed.
Print Assumptions C16Rest_mono_units.

Section PolyUnits.
  Context {X R : Type} (m : mono_ops X) (o : ring_ops R) (ok : X -> Prop).
  Context (ML : mono_laws m ok) (L : ring_laws o) (MU : mono_unit_laws m ok) (u : unit_ops R) (UL : unit_laws o u).
  Notation WF := (WF o ok).
  Notation coeff := (coeff (meqb m) o).
  Infix "==" := (peq m o) (at level 70).

  (* inv: Some exactly on single terms a*x with x and a invertible; the result is a^-1 * x^-1 *)
  Theorem C16Rest_inv_shape : forall p q,
    p_inv m o u p = Some q <->
    exists x a xi ai, p = [(x, a)] /\ minv m x = Some xi /\ rinv u a = Some ai /\ q = p_from_pair m o xi ai.
  Proof. exact (inv_shape m o u). Qed.
  (* inv p = Some q -> p * q = 1 = q * p, as stored values (not only extensionally) *)
  Theorem C16Rest_inv_sound : forall p q, WF p -> p_inv m o u p = Some q ->
    WF q /\ p_mul m o p q = p_one m o /\ p_mul m o q p = p_one m o.
  Proof. exact (inv_sound m o ok ML L MU u UL). Qed.
  Theorem C16Rest_is_unit_iff_inv : forall p, WF p -> (p_is_unit m u p = true <-> exists q, p_inv m o u p = Some q).
  Proof. exact (is_unit_iff_inv m o ok MU u UL). Qed.
  Theorem C16Rest_is_unit_shape : forall p,
    p_is_unit m u p = true <-> exists x a, p = [(x, a)] /\ mis_unit m x = true /\ ris_unit u a = true.
  Proof. exact (is_unit_shape m u). Qed.

  (* over an integral domain is_unit is exactly invertibility in the polynomial ring *)
  Theorem C16Rest_is_unit_iff_invertible : forall p, integral o -> WF p ->
    (p_is_unit m u p = true <-> exists q, WF q /\ p_mul m o p q == p_one m o).
  Proof. exact (is_unit_iff_invertible m o ok ML L MU u UL). Qed.

  (* normalizing_unit p is the constant rnunit(lead_coeff p): a unit; multiplying by it scales every
     coefficient, keeps the leading monomial, and normalises the leading coefficient *)
  Theorem C16Rest_normalizing_unit : forall p, rone o <> rzero o -> WF p ->
    let c := rnunit u (p_lead_coeff m o p) in
    let nu := p_normalizing_unit m o u p in
    nu = [(mone m, c)] /\ WF nu /\ p_is_unit m u nu = true /\
    WF (p_mul m o p nu) /\
    (forall z, coeff (p_mul m o p nu) z = rmul o (coeff p z) c) /\
    p_lead_mono m o (p_mul m o p nu) = p_lead_mono m o p /\
    p_lead_coeff m o (p_mul m o p nu) = rmul o (p_lead_coeff m o p) c /\
    rnunit u (p_lead_coeff m o (p_mul m o p nu)) = rone o.
  Proof. exact (normalizing_unit_spec m o ok ML L MU u UL). Qed.

  (* ================= (d) is_const / const_term / is_one / pow ================= *)
  (* is_const looks at EVERY monomial of the support (for Laurent polynomials the leading monomial of
     1 + x^-1 is 1, yet the polynomial is not constant) *)
  Theorem C16Rest_is_const : forall p, WF p ->
    (p_is_const m p = true <-> forall x, coeff p x <> rzero o -> x = mone m).
  Proof. exact (is_const_iff m o ok ML). Qed.
  Theorem C16Rest_is_const_shape : forall p, WF p ->
    (p_is_const m p = true <-> p = [] \/ exists c, c <> rzero o /\ p = [(mone m, c)]).
  Proof. exact (is_const_shape m o ok ML). Qed.
  Theorem C16Rest_is_const_from_const : forall p, WF p ->
    (p_is_const m p = true <-> p = p_from_const m o (p_const_term m o p)).
  Proof. exact (is_const_from_const m o ok ML L). Qed.
  Theorem C16Rest_const_term : forall p, p_const_term m o p = coeff p (mone m).
  Proof. exact (const_term_spec m o). Qed.
  Theorem C16Rest_is_one : forall p, WF p -> (p_is_one m o p = true <-> p == p_one m o).
  Proof. exact (is_one_iff m o ok ML L). Qed.

  (* pow is the iterated product *)
  Theorem C16Rest_pow : forall a, WF a ->
    p_pow m o a 0 = p_one m o /\ p_pow m o a 1 == a /\
    (forall n, p_pow m o a (S n) = p_mul m o (p_pow m o a n) a) /\
    (forall n k, p_pow m o a (n + k) == p_mul m o (p_pow m o a n) (p_pow m o a k)).
  Proof.
    exact (fun a Ha => conj (pow_0 m o a) (conj (pow_1 m o ok ML L a Ha) (conj (pow_succ m o a)
          (fun n k => pow_add m o ok ML L a n k Ha)))).
  Qed.
  (* signed exponents: n >= 0 as above; n < 0 panics iff self is not a unit, otherwise the result is the
     inverse of a^(-n) *)
  Theorem C16Rest_pow_signed : forall a, WF a ->
    (forall n, (0 <= n)%Z -> p_pow_z m o u a n = Some (p_pow m o a (Z.to_nat n))) /\
    (forall n, p_pow_z m o u a n = None <-> (n < 0)%Z /\ p_is_unit m u a = false) /\
    (forall n q, (n < 0)%Z -> p_pow_z m o u a n = Some q ->
       WF q /\ p_mul m o (p_pow m o a (Z.to_nat (- n))) q == p_one m o).
  Proof.
    exact (fun a Ha => conj (pow_z_nonneg m o u a) (conj (fun n => pow_z_none m o ok MU u UL a n Ha)
          (fun n q => pow_z_neg m o ok ML L MU u UL a n q Ha))).
  Qed.
End PolyUnits.
Print Assumptions C16Rest_inv_shape.
Print Assumptions C16Rest_inv_sound.
Print Assumptions C16Rest_is_unit_iff_inv.
Print Assumptions C16Rest_is_unit_shape.
Print Assumptions C16Rest_is_unit_iff_invertible.
Print Assumptions C16Rest_normalizing_unit.
Print Assumptions C16Rest_is_const.
Print Assumptions C16Rest_is_const_shape.
Print Assumptions C16Rest_is_const_from_const.
Print Assumptions C16Rest_const_term.
Print Assumptions C16Rest_is_one.
Print Assumptions C16Rest_pow.
Print Assumptions C16Rest_pow_signed.

(* is_unit for the concrete types: ordinary polynomials (usize exponents) -> the constant units;
   Laurent polynomials (isize exponents) -> the single terms with a unit coefficient *)
Theorem C16Rest_units_ordinary : forall I (e : exp_ops I) eZ, exp_laws e eZ ->
  forall R (o : ring_ops R), ring_laws o -> forall u : unit_ops R, unit_laws o u ->
  esigned e = false -> rone o <> rzero o ->
  (forall p, WF o any p -> (p_is_unit (var_mono e) u p = true <-> exists a, ris_unit u a = true /\ p = p_from_const (var_mono e) o a)) /\
  (forall p, WF o any p -> (p_is_unit (var2_mono e) u p = true <-> exists a, ris_unit u a = true /\ p = p_from_const (var2_mono e) o a)) /\
  (forall p, WF o any p -> (p_is_unit (var3_mono e) u p = true <-> exists a, ris_unit u a = true /\ p = p_from_const (var3_mono e) o a)) /\
  (forall p, WF o (Reduced e) p -> (p_is_unit (mvar_mono e) u p = true <-> exists a, ris_unit u a = true /\ p = p_from_const (mvar_mono e) o a)).
Proof. exact (fun I e eZ EL R o L u UL => poly_units_ordinary e eZ EL o L u UL). Qed.
Print Assumptions C16Rest_units_ordinary.

Theorem C16Rest_units_laurent : forall I (e : exp_ops I) eZ, exp_laws e eZ ->
  forall R (u : unit_ops R), esigned e = true ->
  (forall p, p_is_unit (var_mono e) u p = true <-> exists x a, ris_unit u a = true /\ p = [(x, a)]) /\
  (forall p, p_is_unit (var2_mono e) u p = true <-> exists x a, ris_unit u a = true /\ p = [(x, a)]) /\
  (forall p, p_is_unit (var3_mono e) u p = true <-> exists x a, ris_unit u a = true /\ p = [(x, a)]) /\
  (forall p, p_is_unit (mvar_mono e) u p = true <-> exists x a, ris_unit u a = true /\ p = [(x, a)]).
Proof. exact (fun I e eZ EL R u => poly_units_laurent e eZ EL u). Qed.
Print Assumptions C16Rest_units_laurent.

(* ================= non-vacuity ================= *)
(* the dictionaries the hypotheses quantify over exist: Z with its units {1, -1} is an integral domain with
   unit laws (this is the dictionary the correspondence driver runs) *)
Example C16Rest_dictionaries_exist :
  ring_laws Z_ring /\ integral Z_ring /\ unit_laws Z_ring Z_units /\
  exp_laws N_exp Z.of_N /\ exp_laws Z_exp (fun z => z).
Proof. exact (conj Z_ring_laws (conj Z_integral (conj Z_units_laws (conj N_exp_laws Z_exp_laws)))). Qed.

(* division: x^3 / x^5 panics for usize and is x^-2 for isize; x0^3 x2 / x0^2 x1 panics, / x0^3 = x2 *)
Example C16Rest_example_div :
  mdiv (var_mono N_exp) 3%N 5%N = None /\ mdiv (var_mono N_exp) 5%N 3%N = Some 2%N /\
  mdivides (var_mono N_exp) 3%N 5%N = true /\ mdivides (var_mono N_exp) 5%N 3%N = false /\
  mdiv (var_mono Z_exp) 3%Z 5%Z = Some (-2)%Z /\
  mdiv (var2_mono N_exp) (3, 1)%N (2, 2)%N = None /\ mdiv (var2_mono N_exp) (3, 2)%N (2, 2)%N = Some (1, 0)%N /\
  mdiv (mvar_mono N_exp) [(0, 3%N); (2, 1%N)] [(0, 2%N); (1, 1%N)] = None /\
  mdiv (mvar_mono N_exp) [(0, 3%N); (2, 1%N)] [(0, 3%N)] = Some [(2, 1%N)] /\
  mdivides (mvar_mono N_exp) [(0, 3%N)] [(0, 3%N); (2, 1%N)] = true /\
  mdiv (mvar_mono Z_exp) [(0, 3%Z); (2, 1%Z)] [(0, 3%Z); (1, 5%Z)] = Some [(1, (-5)%Z); (2, 1%Z)].
Proof. vm_compute. repeat split; reflexivity. Qed.

(* a Laurent polynomial in Z[x0^+-1, x1, x2]: 5 x0^2 x1 + 7 x0^2 x2^3 + x0^-4 + 2 x1^9 + 3 x0 x1^8 *)
Example C16Rest_example_lead_term_for :
  let p : lc (@mdeg Z) Z :=
    [([(0, 2%Z); (1, 1%Z)], 5%Z); ([(0, 2%Z); (2, 3%Z)], 7%Z); ([(0, (-4)%Z)], 1%Z); ([(1, 9%Z)], 2%Z);
     ([(0, 1%Z); (1, 8%Z)], 3%Z)] in
  WF Z_ring (Reduced Z_exp) p /\
  lead_term_for Z_exp p 0 = Some ([(0, 2%Z); (2, 3%Z)], 7%Z) /\      (* tie in x0 broken by grlex *)
  lead_term_for Z_exp p 1 = Some ([(1, 9%Z)], 2%Z) /\
  lead_term_for Z_exp p 2 = Some ([(0, 2%Z); (2, 3%Z)], 7%Z) /\
  lead_term_for Z_exp p 3 = None.
Proof.
  cbv zeta. split; [|vm_compute; repeat split; reflexivity].
  split; [split|].
  - cbn. repeat constructor; cbn; intuition discriminate.
  - repeat constructor; cbn; discriminate.
  - unfold KeysOk. cbn. repeat constructor; cbn; try lia; discriminate.
Qed.

(* units: -x^-3 is a unit of Z[x, x^-1] with inverse -x^3; -x^3 is not a unit of Z[x]; 2 is not a unit;
   1 + x^-1 has leading term 1 but is not constant *)
Example C16Rest_example_units :
  p_inv (var_mono Z_exp) Z_ring Z_units [((-3)%Z, (-1)%Z)] = Some [(3%Z, (-1)%Z)] /\
  p_mul (var_mono Z_exp) Z_ring [((-3)%Z, (-1)%Z)] [(3%Z, (-1)%Z)] = p_one (var_mono Z_exp) Z_ring /\
  p_is_unit (var_mono N_exp) Z_units [(3%N, (-1)%Z)] = false /\
  p_is_unit (var_mono N_exp) Z_units [(0%N, (-1)%Z)] = true /\
  p_is_unit (var_mono N_exp) Z_units [(0%N, 2%Z)] = false /\
  p_normalizing_unit (var_mono Z_exp) Z_ring Z_units [(3%Z, (-1)%Z); (2%Z, 4%Z)] = [(0%Z, (-1)%Z)] /\
  p_pow_z (var_mono Z_exp) Z_ring Z_units [(1%Z, (-1)%Z)] (-3) = Some [((-3)%Z, (-1)%Z)] /\
  p_pow_z (var_mono N_exp) Z_ring Z_units [(1%N, 1%Z)] (-1) = None /\
  p_lead_term (var_mono Z_exp) Z_ring [((-1)%Z, 1%Z); (0%Z, 1%Z)] = (0%Z, 1%Z) /\
  p_is_const (var_mono Z_exp) [((-1)%Z, 1%Z); (0%Z, 1%Z)] = false.
Proof. vm_compute. repeat split; reflexivity. Qed.

(* the domain theorem at work: x + 1 has no inverse in Z[x, x^-1] (is_unit computes to false) *)
Example C16Rest_example_not_invertible :
  let m := var_mono Z_exp in
  let p : lc Z Z := [(1%Z, 1%Z); (0%Z, 1%Z)] in
  WF Z_ring any p /\ ~ exists q, WF Z_ring any q /\ peq m Z_ring (p_mul m Z_ring p q) (p_one m Z_ring).
Proof.
  cbv zeta.
  assert (Hp : WF Z_ring any [(1%Z, 1%Z); (0%Z, 1%Z)]).
  { split; [split|]; cbn; repeat constructor; cbn; intuition discriminate. }
  split; [exact Hp|]. intros H.
  apply (C16Rest_is_unit_iff_invertible (var_mono Z_exp) Z_ring any (var_laws Z_exp (fun z => z) Z_exp_laws) Z_ring_laws
           (var_unit_laws Z_exp (fun z => z) Z_exp_laws) Z_units Z_units_laws _ Z_integral Hp) in H.
  discriminate H.
Qed.
