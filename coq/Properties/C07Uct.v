(* C07 (continued) - universal coefficients as a theorem about actual ranks modulo a prime, and over Q.
   Property theorems only; every proof is [exact <lemma>] and is followed by Print Assumptions.

   Setting.  d_in : Z^n0 -> Z^n1 and d_out : Z^n1 -> Z^n2 with d_out * d_in = 0 (matrices n1 x n0 and n2 x n1).
   The integral homology in the middle degree has free rank n1 - r_in - r_out (r = number of invariant factors) and
   its torsion coefficients are the non-unit invariant factors of d_in; the non-unit factors of d_out are the torsion
   of the NEXT homology group (C07_rank_tors).  Over a field F the homology of the base-changed complex has dimension
   n1 - rank_F(d_in) - rank_F(d_out); here rank_F(A) is the size of ANY Smith-type form of A over F
   ([smith_form], Proofs/C07Algebra.v: P A Q = diag(c_0 .. c_(r-1), 0 ..) with P, Q invertible and all c_i <> 0 -
   an invariant of the matrix by C07Rank.smith_form_rank_unique).  Proved here for every prime p:
       n1 - rank_(F_p)(d_in) - rank_(F_p)(d_out)
         = (n1 - r_in - r_out) + #{t in tors(d_in) : p | t} + #{t in tors(d_out) : p | t}
   abstractly (C07_uct), for the output of the mirrored HomologyCalc with ANY snf routine meeting the C09 contract
   (C07_uct_calc), for the run of the same code over F_p on the reduced matrices (C07_uct_calc_fp), and closed for the
   mirror of snf.rs (C07_uct_mirror); over Q the Betti number is the integral free rank (C07_rank_Q, C07_rank_Q_calc, C07_rank_Q_mirror).
   No subtraction is truncated: rank d_in + rank d_out <= n1 over every integral domain (C07_complex_rank_bound).

   Vocabulary: [redp p A] = A mod p entrywise (into [fp p], the model of FF<p>), [redq A] = A in Qc;
   [pdiv p t] = (t mod p =? 0);  [cnt_div p a r] = #{k < r : p | a_k};  [dred p], [dredq]: the same base changes
   of the dense matrices of Model/HomologyCalc.v. *)
From Coq Require Import ZArith Znumtheory Arith List Bool Lia.
From Coq Require Qcanon.
Require Import Yui.Base.Ring Yui.Base.MatF Yui.Base.MatL Yui.Model.HomologyCalc.
Require Yui.Model.Snf.
Require Import Yui.Proofs.C07Algebra Yui.Proofs.C07Calc Yui.Proofs.C09UniqueModP Yui.Proofs.C09Run
  Yui.Proofs.C09Contract Yui.Proofs.C07Uct Yui.Proofs.C07UctCalc.
Require Yui.Proofs.C09Total Yui.Proofs.C09Elim Yui.Proofs.C09Unique Yui.Proofs.C09UniqueCor.
Import ListNotations.
Close Scope Z_scope.

Module SNF := Yui.Model.Snf.

(* ---------- the vocabulary, pinned ---------- *)
Theorem C07_uct_vocabulary :
  (forall (p : Z) (A : mat Z) (i j : nat), redp p A i j = SNF.fp_mk p (A i j)) /\
  (forall (A : mat Z) (i j : nat), redq A i j = Qcanon.Q2Qc (QArith_base.inject_Z (A i j))) /\
  (forall p t : Z, pdiv p t = (t mod p =? 0)%Z) /\
  (forall (p : Z) (a : nat -> Z) (r : nat),
     cnt_div p a r = length (filter (fun k => (a k mod p =? 0)%Z) (seq 0 r))) /\
  (forall (p : Z) (d : dmat Z), dred p d = mkm (nr d) (nc d) (map (map (SNF.fp_mk p)) (ent d))) /\
  (forall d : dmat Z, dredq d = mkm (nr d) (nc d) (map (map (fun a => Qcanon.Q2Qc (QArith_base.inject_Z a))) (ent d))) /\
  (forall (p : Z) (d : dmat Z) (i j : nat),
     mget (SNF.fp_ring p) (dred p d) i j = SNF.fp_mk p (mget Z_ring d i j)) /\
  (forall (F : Type) (o : ring_ops F) (a : F), field_isu o a = negb (ris_zero o a)).
Proof.
  repeat split; intros; try reflexivity. apply mget_dred.
Qed.
Print Assumptions C07_uct_vocabulary.

(* ---------- rank d_in + rank d_out <= n, over every integral domain ---------- *)
Theorem C07_complex_rank_bound :
  forall (R : Type) (o : ring_ops R), ring_laws o -> integral o ->
  forall (n m k : nat) (d1 d2 : mat R) (r1 : nat) (a : nat -> R) (r2 : nat) (b : nat -> R),
  meq k m (mmul o n d2 d1) (mzero o) ->
  smith_form o n m d1 r1 a -> smith_form o k n d2 r2 b -> r1 + r2 <= n.
Proof. exact @complex_rank_bound. Qed.
Print Assumptions C07_complex_rank_bound.

(* ---------- the abstract statement ---------- *)
Theorem C07_uct :
  forall p : Z, prime p ->
  forall (n0 n1 n2 : nat) (d_in d_out : mat Z)
         (r_in : nat) (a : nat -> Z) (r_out : nat) (b : nat -> Z)
         (rp_in : nat) (c_in : nat -> SNF.fp p) (rp_out : nat) (c_out : nat -> SNF.fp p),
  meq n2 n0 (mmul Z_ring n1 d_out d_in) (mzero Z_ring) ->
  smith_form Z_ring n1 n0 d_in r_in a -> (forall k, S k < r_in -> (a k | a (S k))%Z) ->
  smith_form Z_ring n2 n1 d_out r_out b -> (forall k, S k < r_out -> (b k | b (S k))%Z) ->
  smith_form (SNF.fp_ring p) n1 n0 (redp p d_in) rp_in c_in ->
  smith_form (SNF.fp_ring p) n2 n1 (redp p d_out) rp_out c_out ->
  r_in + r_out <= n1 /\ rp_in + rp_out <= n1 /\
  meq n2 n0 (mmul (SNF.fp_ring p) n1 (redp p d_out) (redp p d_in)) (mzero (SNF.fp_ring p)) /\
  rp_in + cnt_div p a r_in = r_in /\ rp_out + cnt_div p b r_out = r_out /\
  n1 - rp_in - rp_out = (n1 - r_in - r_out) + cnt_div p a r_in + cnt_div p b r_out.
Proof. exact uct_abstract. Qed.
Print Assumptions C07_uct.

(* the factors divisible by p are non-units (a unit is prime to p): the two counts only see the torsion coefficients,
   i.e. the lists [non_units isu (map a (seq 0 r))] that HomologyCalc::result reports *)
Theorem C07_uct_torsion_count :
  forall p : Z, prime p ->
  forall (isu : Z -> bool) (a : nat -> Z) (r : nat),
  (forall x : Z, isu x = true -> exists y : Z, (x * y = 1)%Z) ->
  cnt_div p a r = length (filter (pdiv p) (non_units isu (map a (seq 0 r)))).
Proof. exact cnt_div_non_units. Qed.
Print Assumptions C07_uct_torsion_count.

(* ---------- the output of the mirrored HomologyCalc, any snf routine meeting the C09 contract ---------- *)
(* two consecutive degrees: (rank, tors) of the degree between d1 and d2, tors' of the next one *)
Theorem C07_uct_calc :
  forall isu : Z -> bool,
  (forall a b : Z, rmul Z_ring a b = rone Z_ring -> isu a = true) ->
  (forall a : Z, isu a = true -> exists b : Z, rmul Z_ring a b = rone Z_ring) ->
  forall snf : dmat Z -> bool -> bool -> bool -> bool -> option (snf_result Z),
  snf_contract Z_ring snf ->
  forall p : Z, prime p ->
  forall (d1 d2 d3 : dmat Z) (wt wt' : bool) (rank : nat) (tors : list Z) (tr : option (trans Z))
         (rank' : nat) (tors' : list Z) (tr' : option (trans Z)),
  mwf d1 -> mwf d2 -> mwf d3 -> zero_prod Z_ring d1 d2 -> zero_prod Z_ring d2 d3 ->
  calculate Z_ring isu snf d1 d2 wt = Some (rank, tors, tr) ->
  calculate Z_ring isu snf d2 d3 wt' = Some (rank', tors', tr') ->
  forall (rp1 : nat) (c1 : nat -> SNF.fp p) (rp2 : nat) (c2 : nat -> SNF.fp p),
  smith_form (SNF.fp_ring p) (nr d1) (nc d1) (redp p (mget Z_ring d1)) rp1 c1 ->
  smith_form (SNF.fp_ring p) (nr d2) (nr d1) (redp p (mget Z_ring d2)) rp2 c2 ->
  rp1 + rp2 <= nr d1 /\
  nr d1 - rp1 - rp2 = rank + length (filter (pdiv p) tors) + length (filter (pdiv p) tors').
Proof. exact calc_uct. Qed.
Print Assumptions C07_uct_calc.

(* the same code over F_p on the reduced matrices: the rank it reports is the one predicted from the integral answer,
   and it reports no torsion *)
Theorem C07_uct_calc_fp :
  forall isu : Z -> bool,
  (forall a b : Z, rmul Z_ring a b = rone Z_ring -> isu a = true) ->
  (forall a : Z, isu a = true -> exists b : Z, rmul Z_ring a b = rone Z_ring) ->
  forall snf : dmat Z -> bool -> bool -> bool -> bool -> option (snf_result Z),
  snf_contract Z_ring snf ->
  forall p : Z, prime p ->
  forall isup : SNF.fp p -> bool,
  (forall a b : SNF.fp p, rmul (SNF.fp_ring p) a b = rone (SNF.fp_ring p) -> isup a = true) ->
  (forall a : SNF.fp p, isup a = true -> exists b : SNF.fp p, rmul (SNF.fp_ring p) a b = rone (SNF.fp_ring p)) ->
  forall snfp : dmat (SNF.fp p) -> bool -> bool -> bool -> bool -> option (snf_result (SNF.fp p)),
  snf_contract (SNF.fp_ring p) snfp ->
  forall (d1 d2 d3 : dmat Z) (wt wt' : bool) (rank : nat) (tors : list Z) (tr : option (trans Z))
         (rank' : nat) (tors' : list Z) (tr' : option (trans Z))
         (wtp : bool) (rankp : nat) (torsp : list (SNF.fp p)) (trp : option (trans (SNF.fp p))),
  mwf d1 -> mwf d2 -> mwf d3 -> zero_prod Z_ring d1 d2 -> zero_prod Z_ring d2 d3 ->
  calculate Z_ring isu snf d1 d2 wt = Some (rank, tors, tr) ->
  calculate Z_ring isu snf d2 d3 wt' = Some (rank', tors', tr') ->
  calculate (SNF.fp_ring p) isup snfp (dred p d1) (dred p d2) wtp = Some (rankp, torsp, trp) ->
  rankp = rank + length (filter (pdiv p) tors) + length (filter (pdiv p) tors') /\ torsp = [].
Proof. exact calc_uct_fp. Qed.
Print Assumptions C07_uct_calc_fp.

(* closed instance: the snf parameter is the mirror of snf.rs (Model/Snf.v through the adapter of C09Contract.v, the
   definition the extracted model runs), is_unit is the dictionary's, over Z with or without a preprocessing step that
   meets its contract [pre_ok] (trivially true for None) and over F_p *)
Theorem C07_uct_mirror :
  forall pre : option (SNF.preproc Z), pre_ok (SNF.Zpre_dict pre) ->
  forall p : Z, prime p ->
  forall (d1 d2 d3 : dmat Z) (wt wt' : bool) (rank : nat) (tors : list Z) (tr : option (trans Z))
         (rank' : nat) (tors' : list Z) (tr' : option (trans Z)),
  mwf d1 -> mwf d2 -> mwf d3 -> zero_prod Z_ring d1 d2 -> zero_prod Z_ring d2 d3 ->
  calculate Z_ring (ris_unit (SNF.ed_unit (SNF.Zpre_dict pre))) (snf_adapter (SNF.Zpre_dict pre)) d1 d2 wt
    = Some (rank, tors, tr) ->
  calculate Z_ring (ris_unit (SNF.ed_unit (SNF.Zpre_dict pre))) (snf_adapter (SNF.Zpre_dict pre)) d2 d3 wt'
    = Some (rank', tors', tr') ->
  (forall (rp1 : nat) (c1 : nat -> SNF.fp p) (rp2 : nat) (c2 : nat -> SNF.fp p),
     smith_form (SNF.fp_ring p) (nr d1) (nc d1) (redp p (mget Z_ring d1)) rp1 c1 ->
     smith_form (SNF.fp_ring p) (nr d2) (nr d1) (redp p (mget Z_ring d2)) rp2 c2 ->
     rp1 + rp2 <= nr d1 /\
     nr d1 - rp1 - rp2 = rank + length (filter (pdiv p) tors) + length (filter (pdiv p) tors')) /\
  (forall (wtp : bool) (rankp : nat) (torsp : list (SNF.fp p)) (trp : option (trans (SNF.fp p))),
     calculate (SNF.fp_ring p) (ris_unit (SNF.ed_unit (SNF.fp_dict p))) (snf_adapter (SNF.fp_dict p))
               (dred p d1) (dred p d2) wtp = Some (rankp, torsp, trp) ->
     rankp = rank + length (filter (pdiv p) tors) + length (filter (pdiv p) tors') /\ torsp = []).
Proof. exact mirror_uct. Qed.
Print Assumptions C07_uct_mirror.

(* ---------- over Q ---------- *)
Theorem C07_rank_Q :
  forall (m n : nat) (A : mat Z) (r : nat) (a : nat -> Z) (rq : nat) (c : nat -> Qcanon.Qc),
  smith_form Z_ring m n A r a -> smith_form SNF.Q_ring m n (redq A) rq c -> rq = r.
Proof. exact rank_over_Q. Qed.
Print Assumptions C07_rank_Q.

Theorem C07_rank_Q_calc :
  forall isu : Z -> bool,
  (forall a b : Z, rmul Z_ring a b = rone Z_ring -> isu a = true) ->
  (forall a : Z, isu a = true -> exists b : Z, rmul Z_ring a b = rone Z_ring) ->
  forall snf : dmat Z -> bool -> bool -> bool -> bool -> option (snf_result Z),
  snf_contract Z_ring snf ->
  forall isuq : Qcanon.Qc -> bool,
  (forall a b : Qcanon.Qc, rmul SNF.Q_ring a b = rone SNF.Q_ring -> isuq a = true) ->
  (forall a : Qcanon.Qc, isuq a = true -> exists b : Qcanon.Qc, rmul SNF.Q_ring a b = rone SNF.Q_ring) ->
  forall snfq : dmat Qcanon.Qc -> bool -> bool -> bool -> bool -> option (snf_result Qcanon.Qc),
  snf_contract SNF.Q_ring snfq ->
  forall (d1 d2 : dmat Z) (wt : bool) (rank : nat) (tors : list Z) (tr : option (trans Z)),
  mwf d1 -> mwf d2 -> zero_prod Z_ring d1 d2 ->
  calculate Z_ring isu snf d1 d2 wt = Some (rank, tors, tr) ->
  (forall (rq1 : nat) (c1 : nat -> Qcanon.Qc) (rq2 : nat) (c2 : nat -> Qcanon.Qc),
     smith_form SNF.Q_ring (nr d1) (nc d1) (redq (mget Z_ring d1)) rq1 c1 ->
     smith_form SNF.Q_ring (nr d2) (nr d1) (redq (mget Z_ring d2)) rq2 c2 ->
     rq1 + rq2 <= nr d1 /\ nr d1 - rq1 - rq2 = rank) /\
  (forall (wtq : bool) (rankq : nat) (torsq : list Qcanon.Qc) (trq : option (trans Qcanon.Qc)),
     calculate SNF.Q_ring isuq snfq (dredq d1) (dredq d2) wtq = Some (rankq, torsq, trq) ->
     rankq = rank /\ torsq = []).
Proof. exact calc_rank_Q. Qed.
Print Assumptions C07_rank_Q_calc.

Theorem C07_rank_Q_mirror :
  forall pre : option (SNF.preproc Z), pre_ok (SNF.Zpre_dict pre) ->
  forall (d1 d2 : dmat Z) (wt : bool) (rank : nat) (tors : list Z) (tr : option (trans Z)),
  mwf d1 -> mwf d2 -> zero_prod Z_ring d1 d2 ->
  calculate Z_ring (ris_unit (SNF.ed_unit (SNF.Zpre_dict pre))) (snf_adapter (SNF.Zpre_dict pre)) d1 d2 wt
    = Some (rank, tors, tr) ->
  (forall (rq1 : nat) (c1 : nat -> Qcanon.Qc) (rq2 : nat) (c2 : nat -> Qcanon.Qc),
     smith_form SNF.Q_ring (nr d1) (nc d1) (redq (mget Z_ring d1)) rq1 c1 ->
     smith_form SNF.Q_ring (nr d2) (nr d1) (redq (mget Z_ring d2)) rq2 c2 ->
     rq1 + rq2 <= nr d1 /\ nr d1 - rq1 - rq2 = rank) /\
  (forall (wtq : bool) (rankq : nat) (torsq : list Qcanon.Qc) (trq : option (trans Qcanon.Qc)),
     calculate SNF.Q_ring (ris_unit (SNF.ed_unit SNF.Q_dict)) (snf_adapter SNF.Q_dict) (dredq d1) (dredq d2) wtq
       = Some (rankq, torsq, trq) ->
     rankq = rank /\ torsq = []).
Proof. exact mirror_rank_Q. Qed.
Print Assumptions C07_rank_Q_mirror.

(* ---------- non-vacuity ---------- *)
(* exM = U diag(1, 2, 6) V with U, V unimodular: invariant factors 1, 2, 6 *)
Definition exM : lmat Z := [[1; 1; 0]; [1; 3; 2]; [2; 4; 8]]%Z.
Definition ex_d0 : dmat Z := mkm 3 0 [[]; []; []].            (* 0 -> Z^3 *)
Definition ex_d1 : dmat Z := mkm 3 3 exM.                     (* Z^3 -> Z^3 *)
Definition ex_d2 : dmat Z := mkm 1 3 [[0; 0; 0]]%Z.           (* Z^3 -> Z, zero *)
Definition ex_d3 : dmat Z := mkm 0 1 [].                      (* Z -> 0 *)

(* the rank of exM modulo 2 is 1, modulo 3 it is 2, modulo 5 it is 3 - for ANY Smith-type form over F_p *)
Example C07_uct_example_rank :
  (forall rp c, smith_form (SNF.fp_ring 2) 3 3 (redp 2 (lget Z_ring exM)) rp c -> rp = 1) /\
  (forall rp c, smith_form (SNF.fp_ring 3) 3 3 (redp 3 (lget Z_ring exM)) rp c -> rp = 2) /\
  (forall rp c, smith_form (SNF.fp_ring 5) 3 3 (redp 5 (lget Z_ring exM)) rp c -> rp = 3).
Proof.
  assert (W : wf 3 3 exM) by (split; [reflexivity|repeat constructor]).
  destruct (Yui.Proofs.C09Elim.Z_snf_total 3 3 exM false false false false W) as [res [E HS]].
  vm_compute in E. injection E as <-.
  assert (P5 : prime 5%Z).
  { apply prime_intro; [lia|]. intros n Hn.
    assert (C : (n = 1 \/ n = 2 \/ n = 3 \/ n = 4)%Z) by lia.
    destruct C as [-> | [-> | [-> | ->]]]; apply Zgcd_1_rel_prime; reflexivity. }
  split; [|split]; intros rp c F.
  - exact (Yui.Proofs.C09UniqueCor.snf_modp_rank 2 prime_2 None 3 3 exM false false false false _ rp c HS F).
  - exact (Yui.Proofs.C09UniqueCor.snf_modp_rank 3 prime_3 None 3 3 exM false false false false _ rp c HS F).
  - exact (Yui.Proofs.C09UniqueCor.snf_modp_rank 5 P5 None 3 3 exM false false false false _ rp c HS F).
Qed.

Lemma ex_wf : mwf ex_d0 /\ mwf ex_d1 /\ mwf ex_d2 /\ mwf ex_d3.
Proof. repeat split; repeat constructor. Qed.

Lemma ex_zero_prod : zero_prod Z_ring ex_d0 ex_d1 /\ zero_prod Z_ring ex_d1 ex_d2 /\ zero_prod Z_ring ex_d2 ex_d3.
Proof.
  split; [|split]; intros i j Hi Hj; cbn [nr nc ex_d0 ex_d1 ex_d2 ex_d3] in Hi, Hj; try lia.
  destruct i as [|i]; [|lia]. destruct j as [|[|[|j]]]; try lia; reflexivity.
Qed.

(* 0 -> Z^3 -exM-> Z^3 -0-> Z -> 0.  In the degree of the second Z^3: H = Z/2 + Z/6 (rank 0), and the Betti number
   over F_2 is 2, over F_3 it is 1 (torsion of this degree); in the degree of the first Z^3: H = 0, but over F_2 the
   Betti number is again 2 and over F_3 it is 1 (torsion of the next degree) - whatever Smith forms are used *)
Example C07_uct_example :
  calculate Z_ring SNF.Z_is_unit (snf_adapter SNF.Z_dict) ex_d1 ex_d2 false = Some (0, [2; 6]%Z, None) /\
  calculate Z_ring SNF.Z_is_unit (snf_adapter SNF.Z_dict) ex_d0 ex_d1 false = Some (0, [], None) /\
  (forall rp1 c1 rp2 c2,
     smith_form (SNF.fp_ring 2) 3 3 (redp 2 (mget Z_ring ex_d1)) rp1 c1 ->
     smith_form (SNF.fp_ring 2) 1 3 (redp 2 (mget Z_ring ex_d2)) rp2 c2 -> 3 - rp1 - rp2 = 2) /\
  (forall rp1 c1 rp2 c2,
     smith_form (SNF.fp_ring 3) 3 3 (redp 3 (mget Z_ring ex_d1)) rp1 c1 ->
     smith_form (SNF.fp_ring 3) 1 3 (redp 3 (mget Z_ring ex_d2)) rp2 c2 -> 3 - rp1 - rp2 = 1) /\
  (forall rp1 c1 rp2 c2,
     smith_form (SNF.fp_ring 2) 3 0 (redp 2 (mget Z_ring ex_d0)) rp1 c1 ->
     smith_form (SNF.fp_ring 2) 3 3 (redp 2 (mget Z_ring ex_d1)) rp2 c2 -> 3 - rp1 - rp2 = 2) /\
  (forall rp1 c1 rp2 c2,
     smith_form (SNF.fp_ring 3) 3 0 (redp 3 (mget Z_ring ex_d0)) rp1 c1 ->
     smith_form (SNF.fp_ring 3) 3 3 (redp 3 (mget Z_ring ex_d1)) rp2 c2 -> 3 - rp1 - rp2 = 1) /\
  (* the run over F_2 / F_3 of the same code returns, with the predicted rank *)
  option_map (fun x => fst (fst x))
    (calculate (SNF.fp_ring 2) (ris_unit (SNF.ed_unit (SNF.fp_dict 2))) (snf_adapter (SNF.fp_dict 2))
               (dred 2 ex_d1) (dred 2 ex_d2) false) = Some 2 /\
  option_map (fun x => fst (fst x))
    (calculate (SNF.fp_ring 3) (ris_unit (SNF.ed_unit (SNF.fp_dict 3))) (snf_adapter (SNF.fp_dict 3))
               (dred 3 ex_d0) (dred 3 ex_d1) false) = Some 1.
Proof.
  destruct ex_wf as [W0 [W1 [W2 W3]]]. destruct ex_zero_prod as [Z01 [Z12 Z23]].
  assert (E12 : calculate Z_ring SNF.Z_is_unit (snf_adapter SNF.Z_dict) ex_d1 ex_d2 false = Some (0, [2; 6]%Z, None))
    by (vm_compute; reflexivity).
  assert (E01 : calculate Z_ring SNF.Z_is_unit (snf_adapter SNF.Z_dict) ex_d0 ex_d1 false = Some (0, [], None))
    by (vm_compute; reflexivity).
  assert (E23 : calculate Z_ring SNF.Z_is_unit (snf_adapter SNF.Z_dict) ex_d2 ex_d3 false = Some (1, [], None))
    by (vm_compute; reflexivity).
  split; [exact E12|]. split; [exact E01|].
  pose proof (fun p Hp => proj1 (mirror_uct None I p Hp ex_d1 ex_d2 ex_d3 false false _ _ _ _ _ _
                                   W1 W2 W3 Z12 Z23 E12 E23)) as A.
  pose proof (fun p Hp => proj1 (mirror_uct None I p Hp ex_d0 ex_d1 ex_d2 false false _ _ _ _ _ _
                                   W0 W1 W2 Z01 Z12 E01 E12)) as B.
  split; [intros rp1 c1 rp2 c2 F1 F2; exact (proj2 (A 2%Z prime_2 rp1 c1 rp2 c2 F1 F2))|].
  split; [intros rp1 c1 rp2 c2 F1 F2; exact (proj2 (A 3%Z prime_3 rp1 c1 rp2 c2 F1 F2))|].
  split; [intros rp1 c1 rp2 c2 F1 F2; exact (proj2 (B 2%Z prime_2 rp1 c1 rp2 c2 F1 F2))|].
  split; [intros rp1 c1 rp2 c2 F1 F2; exact (proj2 (B 3%Z prime_3 rp1 c1 rp2 c2 F1 F2))|].
  split; vm_compute; reflexivity.
Qed.

(* the Smith-type forms over F_p quantified over above exist (C09_modp_form); e.g. for exM modulo 2 *)
Example C07_uct_example_form :
  exists rp c, smith_form (SNF.fp_ring 2) 3 3 (redp 2 (lget Z_ring exM)) rp c.
Proof.
  assert (W : wf 3 3 exM) by (split; [reflexivity|repeat constructor]).
  destruct (Yui.Proofs.C09Elim.Z_snf_total 3 3 exM false false false false W) as [res [_ HS]].
  destruct (Yui.Proofs.C09Unique.spec_smith_form SNF.Z_dict 3 3 exM false false false false res HS) as [F [C _]].
  cbv zeta in F, C.
  eexists. eexists. exact (modp_smith_form 2 prime_2 3 3 _ _ _ F (proj1 (Yui.Proofs.C09Unique.Z_chain _ _) C)).
Qed.
