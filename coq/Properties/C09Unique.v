(* C09 (continued) - uniqueness of the Smith normal form: "the diagonal is unique up to units".
   Property theorems only; every proof is [exact <lemma>] and is followed by Print Assumptions.
   (The gcd-of-minors characterisation over Z, which needs MathComp's determinant, is in C09UniqueMinors.v.)

   Vocabulary.  Matrices are functions nat -> nat -> R over a ring dictionary (Base/MatF.v);
     [smith_form o m n A r a] (Proofs/C07Algebra.v; also the vocabulary of the Khovanov oracle's [SmithOf]):
         there are P, P', Q, Q' with P P' = I = P' P (m x m), Q Q' = I = Q' Q (n x n) and
         P A Q = diag(a_0, .., a_(r-1), 0, ..) on the m x n window, all a_k <> 0, r <= min m n;
     [rdvd o a b]       b = q * a for some q;
     [chain o r a]      a_k | a_(k+1) for k+1 < r;
     [associates o a b] b = u * a with u * v = 1;
     [bezout o]         every x, y have a common divisor of the form s x + t y.
   Proof of the main theorem (Proofs/C09UniqueKer.v, C09UniqueDvd.v): no determinants; a_k | b_k follows from a
   primitive kernel vector of a k x (k+1) block of P1 P2^-1 (see the header of C09UniqueDvd.v); the rank part is
   C07Rank.smith_form_rank_unique. *)
From Coq Require Import ZArith Znumtheory Arith List Bool Lia.
Require Import Yui.Base.Ring Yui.Base.MatF Yui.Base.MatL Yui.Model.Snf.
Require Import Yui.Model.KhCube Yui.Model.KhHomology.
Require Import Yui.Proofs.C07Algebra Yui.Proofs.C09UniqueKer Yui.Proofs.C09UniqueDvd Yui.Proofs.C09Unique
  Yui.Proofs.C09UniqueModP Yui.Proofs.C09UniqueKh Yui.Proofs.C09UniqueCor Yui.Proofs.C09UniqueCanon.
Require Import Yui.Proofs.C09Inv Yui.Proofs.C09Run Yui.Proofs.C09Total Yui.Proofs.C09Term Yui.Proofs.C09Elim
  Yui.Proofs.C09Laws Yui.Proofs.C09Quad.
Require Import Yui.Proofs.KhSmithRows Yui.Proofs.KhSmithMat Yui.Proofs.KhSmithSteps Yui.Proofs.KhSmithMain.
Import ListNotations.
Close Scope Z_scope.

(* ---------- the vocabulary, pinned ---------- *)
Theorem C09_unique_vocabulary :
  forall (R : Type) (o : ring_ops R),
  (forall a b, rdvd o a b <-> exists q, b = rmul o q a) /\
  (forall r a, chain o r a <-> forall k, S k < r -> rdvd o (a k) (a (S k))) /\
  (forall a b, associates o a b <-> exists u v, rmul o u v = rone o /\ b = rmul o u a) /\
  (bezout o <-> forall x y, exists d s t,
      d = radd o (rmul o s x) (rmul o t y) /\ rdvd o d x /\ rdvd o d y) /\
  (forall m n A r a, smith_form o m n A r a <->
     exists P Pi Q Qi : mat R,
       (meq m m (mmul o m P Pi) (mid o) /\ meq m m (mmul o m Pi P) (mid o)) /\
       (meq n n (mmul o n Q Qi) (mid o) /\ meq n n (mmul o n Qi Q) (mid o)) /\
       meq m n (mmul o m P (mmul o n A Q)) (fun i j => if (i =? j) && (i <? r) then a i else rzero o) /\
       (forall i, i < r -> a i <> rzero o) /\ r <= Nat.min m n).
Proof. intros R o. repeat split; intros H; exact H. Qed.
Print Assumptions C09_unique_vocabulary.

(* ---------- the theorem: every Bezout integral domain ---------- *)
Theorem C09_unique :
  forall (R : Type) (o : ring_ops R), ring_laws o -> integral o -> bezout o ->
  forall (m n : nat) (A : mat R) (r1 : nat) (a1 : nat -> R) (r2 : nat) (a2 : nat -> R),
  smith_form o m n A r1 a1 -> smith_form o m n A r2 a2 ->
  chain o r1 a1 -> chain o r2 a2 ->
  r1 = r2 /\ forall k, k < r1 -> associates o (a1 k) (a2 k).
Proof.
  intros R o L Hint B m n A r1 a1 r2 a2 F1 F2 C1 C2.
  exact (smith_form_unique o L Hint m n A r1 a1 r2 a2 B F1 F2 C1 C2).
Qed.
Print Assumptions C09_unique.

(* the divisibility lemma behind it *)
Theorem C09_unique_dvd :
  forall (R : Type) (o : ring_ops R), ring_laws o -> integral o -> bezout o ->
  forall (m n : nat) (A P1 Pi1 Q1 Qi1 P2 Pi2 Q2 Qi2 : mat R) (r : nat) (a b : nat -> R),
  smith o m n A P1 Pi1 Q1 Qi1 (Yui.Proofs.C07Rank.dg o r a) r ->
  smith o m n A P2 Pi2 Q2 Qi2 (Yui.Proofs.C07Rank.dg o r b) r ->
  chain o r a -> chain o r b ->
  forall k, k < r -> rdvd o (a k) (b k).
Proof.
  intros R o L Hint B m n A P1 Pi1 Q1 Qi1 P2 Pi2 Q2 Qi2 r a b S1 S2 Ca Cb k Hk.
  exact (diag_dvd o L Hint m n A P1 Pi1 Q1 Qi1 P2 Pi2 Q2 Qi2 r a b B S1 S2 Ca Cb k Hk).
Qed.
Print Assumptions C09_unique_dvd.

(* ---------- the dictionaries of SnfCalc are Bezout domains ---------- *)
Theorem C09_unique_dict :
  forall (R : Type) (D : euc_dict R), snf_laws D -> gcdx_total D ->
  forall (m n : nat) (A : mat R) (r1 : nat) (a1 : nat -> R) (r2 : nat) (a2 : nat -> R),
  smith_form (ed_ring D) m n A r1 a1 -> smith_form (ed_ring D) m n A r2 a2 ->
  chain (ed_ring D) r1 a1 -> chain (ed_ring D) r2 a2 ->
  r1 = r2 /\ forall k, k < r1 -> associates (ed_ring D) (a1 k) (a2 k).
Proof. exact @dict_smith_form_unique. Qed.
Print Assumptions C09_unique_dict.

Theorem C09_bezout_rings :
  bezout Z_ring /\
  (forall pre, bezout (ed_ring (gausspre_dict pre))) /\
  (forall pre, bezout (ed_ring (eisenpre_dict pre))) /\
  (forall (F : Type) (o : ring_ops F) (finv : F -> F), ring_laws o -> rone o <> rzero o ->
     (forall a, a <> rzero o -> rmul o a (finv a) = rone o) -> bezout (ed_ring (field_dict o finv))).
Proof. exact (conj Z_bezout (conj gauss_bezout (conj eisen_bezout (@field_bezout)))). Qed.
Print Assumptions C09_bezout_rings.

(* ---------- over Z: entries agree up to sign; positive entries are equal ---------- *)
Theorem C09_unique_Z :
  forall (m n : nat) (A : mat Z) (r1 : nat) (a1 : nat -> Z) (r2 : nat) (a2 : nat -> Z),
  smith_form Z_ring m n A r1 a1 -> smith_form Z_ring m n A r2 a2 ->
  (forall k, S k < r1 -> (a1 k | a1 (S k))%Z) ->
  (forall k, S k < r2 -> (a2 k | a2 (S k))%Z) ->
  r1 = r2 /\
  (forall k, k < r1 -> Z.abs (a1 k) = Z.abs (a2 k)) /\
  ((forall k, k < r1 -> (0 < a1 k)%Z) -> (forall k, k < r2 -> (0 < a2 k)%Z) ->
   forall k, k < r1 -> a1 k = a2 k).
Proof. exact Z_smith_form_unique. Qed.
Print Assumptions C09_unique_Z.

(* ---------- the mirrored snf: its diagonal is THE list of invariant factors ---------- *)
(* every result meeting the contract [snf_spec] (= every result the mirrored snf returns, C09_total_partial)
   against ANY Smith form of the input whose diagonal is a divisibility chain *)
Theorem C09_unique_result :
  forall (R : Type) (D : euc_dict R), snf_laws D -> bezout (ed_ring D) ->
  forall (m n : nat) (A : lmat R) (f1 f2 f3 f4 : bool) (res : snf_result R) (r' : nat) (a' : nat -> R),
  snf_spec D m n A f1 f2 f3 f4 res ->
  smith_form (ed_ring D) m n (lget (ed_ring D) A) r' a' -> chain (ed_ring D) r' a' ->
  snf_rank D res = r' /\
  forall k, k < r' -> associates (ed_ring D) (lget (ed_ring D) (dm_rows (sr_d res)) k k) (a' k).
Proof.
  intros R D SL B m n A f1 f2 f3 f4 res r' a' HS F' C'.
  exact (snf_result_unique D SL m n A f1 f2 f3 f4 res r' a' B HS F' C').
Qed.
Print Assumptions C09_unique_result.

(* the whole call: it returns, meets the contract, and its diagonal is unique up to units *)
Theorem C09_total_unique :
  forall (R : Type) (D : euc_dict R),
  snf_laws D -> norm_laws D -> gcdx_total D -> pre_ok D -> pre_total D ->
  forall (m n : nat) (A : lmat R) (f1 f2 f3 f4 : bool), wf m n A ->
  exists res, snf D (mk_dmat m n A) (f1, f2, f3, f4) = Some res /\ snf_spec D m n A f1 f2 f3 f4 res /\
    forall r' a', smith_form (ed_ring D) m n (lget (ed_ring D) A) r' a' -> chain (ed_ring D) r' a' ->
      snf_rank D res = r' /\
      forall k, k < r' -> associates (ed_ring D) (lget (ed_ring D) (dm_rows (sr_d res)) k k) (a' k).
Proof. exact @dict_snf_total_unique. Qed.
Print Assumptions C09_total_unique.

Theorem C09_total_unique_Z :
  forall (m n : nat) (A : lmat Z) (f1 f2 f3 f4 : bool), wf m n A ->
  exists res, snf Z_dict (mk_dmat m n A) (f1, f2, f3, f4) = Some res /\ snf_spec Z_dict m n A f1 f2 f3 f4 res /\
    forall r' a', smith_form Z_ring m n (lget Z_ring A) r' a' ->
      (forall k, S k < r' -> (a' k | a' (S k))%Z) -> (forall k, k < r' -> (0 < a' k)%Z) ->
      snf_rank Z_dict res = r' /\ forall k, k < r' -> lget Z_ring (dm_rows (sr_d res)) k k = a' k.
Proof. exact Z_snf_total_unique. Qed.
Print Assumptions C09_total_unique_Z.

(* over Z (i32 / i64 / i128 / BigInt: with or without the LLL preprocessing, any flags, any fuel) the matrix D,
   rank() and factors() are functions of the input alone *)
Theorem C09_unique_D_Z :
  forall (pre pre' : option (preproc Z)) (m n : nat) (A : lmat Z) (f1 f2 f3 f4 g1 g2 g3 g4 : bool)
         (res res' : snf_result Z),
  snf_spec (Zpre_dict pre) m n A f1 f2 f3 f4 res ->
  snf_spec (Zpre_dict pre') m n A g1 g2 g3 g4 res' ->
  sr_d res = sr_d res' /\ snf_rank (Zpre_dict pre) res = snf_rank (Zpre_dict pre') res' /\
  snf_factors (Zpre_dict pre) res = snf_factors (Zpre_dict pre') res'.
Proof. exact Z_snf_D_unique. Qed.
Print Assumptions C09_unique_D_Z.

(* the same for every supported ring: normalised associates are equal ([nunit_canon]), so D, rank(), factors() are
   functions of the input - for two dictionaries with the same ring and unit operations (with / without the LLL
   preprocessing), any flags, any fuel *)
Theorem C09_canon_meaning :
  forall (R : Type) (D : euc_dict R),
  nunit_canon D <->
  forall a u v : R,
    rmul (ed_ring D) u v = rone (ed_ring D) -> a <> rzero (ed_ring D) ->
    rnunit (ed_unit D) a = rone (ed_ring D) ->
    rnunit (ed_unit D) (rmul (ed_ring D) u a) = rone (ed_ring D) ->
    rmul (ed_ring D) u a = a.
Proof. intros R D. split; intros H; exact H. Qed.
Print Assumptions C09_canon_meaning.

Theorem C09_canon_rings :
  (forall pre, nunit_canon (Zpre_dict pre)) /\
  (forall pre, nunit_canon (gausspre_dict pre)) /\
  (forall pre, nunit_canon (eisenpre_dict pre)) /\
  (forall (F : Type) (o : ring_ops F) (finv : F -> F), ring_laws o -> rone o <> rzero o ->
     (forall a, a <> rzero o -> rmul o a (finv a) = rone o) -> nunit_canon (field_dict o finv)).
Proof. exact canon_rings. Qed.
Print Assumptions C09_canon_rings.

Theorem C09_unique_D :
  forall (R : Type) (D D' : euc_dict R),
  snf_laws D -> bezout (ed_ring D) -> nunit_canon D ->
  ed_ring D' = ed_ring D -> ed_unit D' = ed_unit D ->
  forall (m n : nat) (A : lmat R) (f1 f2 f3 f4 g1 g2 g3 g4 : bool) (res res' : snf_result R),
  snf_spec D m n A f1 f2 f3 f4 res -> snf_spec D' m n A g1 g2 g3 g4 res' ->
  sr_d res = sr_d res' /\ snf_rank D res = snf_rank D' res' /\ snf_factors D res = snf_factors D' res'.
Proof. exact @snf_D_unique. Qed.
Print Assumptions C09_unique_D.

Theorem C09_unique_D_gauss :
  forall (pre pre' : option (preproc quad)) (m n : nat) (A : lmat quad) (f1 f2 f3 f4 g1 g2 g3 g4 : bool)
         (res res' : snf_result quad),
  snf_spec (gausspre_dict pre) m n A f1 f2 f3 f4 res -> snf_spec (gausspre_dict pre') m n A g1 g2 g3 g4 res' ->
  sr_d res = sr_d res' /\ snf_rank (gausspre_dict pre) res = snf_rank (gausspre_dict pre') res' /\
  snf_factors (gausspre_dict pre) res = snf_factors (gausspre_dict pre') res'.
Proof. exact gauss_snf_D_unique. Qed.
Print Assumptions C09_unique_D_gauss.

Theorem C09_unique_D_eisen :
  forall (pre pre' : option (preproc quad)) (m n : nat) (A : lmat quad) (f1 f2 f3 f4 g1 g2 g3 g4 : bool)
         (res res' : snf_result quad),
  snf_spec (eisenpre_dict pre) m n A f1 f2 f3 f4 res -> snf_spec (eisenpre_dict pre') m n A g1 g2 g3 g4 res' ->
  sr_d res = sr_d res' /\ snf_rank (eisenpre_dict pre) res = snf_rank (eisenpre_dict pre') res' /\
  snf_factors (eisenpre_dict pre) res = snf_factors (eisenpre_dict pre') res'.
Proof. exact eisen_snf_D_unique. Qed.
Print Assumptions C09_unique_D_eisen.

Theorem C09_unique_D_field :
  forall (F : Type) (o : ring_ops F) (finv : F -> F),
  ring_laws o -> rone o <> rzero o -> (forall a, a <> rzero o -> rmul o a (finv a) = rone o) ->
  forall (m n : nat) (A : lmat F) (f1 f2 f3 f4 g1 g2 g3 g4 : bool) (res res' : snf_result F),
  snf_spec (field_dict o finv) m n A f1 f2 f3 f4 res -> snf_spec (field_dict o finv) m n A g1 g2 g3 g4 res' ->
  sr_d res = sr_d res' /\ snf_rank (field_dict o finv) res = snf_rank (field_dict o finv) res' /\
  snf_factors (field_dict o finv) res = snf_factors (field_dict o finv) res'.
Proof. exact @field_snf_D_unique. Qed.
Print Assumptions C09_unique_D_field.

(* SnfResult::factors = the first rank() diagonal entries *)
Theorem C09_factors :
  forall (R : Type) (D : euc_dict R), snf_laws D ->
  forall (m n : nat) (A : lmat R) (f1 f2 f3 f4 : bool) (res : snf_result R),
  snf_spec D m n A f1 f2 f3 f4 res ->
  snf_factors D res = map (fun k => lget (ed_ring D) (dm_rows (sr_d res)) k k) (seq 0 (snf_rank D res)).
Proof. exact @snf_factors_spec. Qed.
Print Assumptions C09_factors.

(* ---------- the mirrored snf and the Khovanov oracle's sparse [smith_diag] compute the same factors ---------- *)
Theorem C09_unique_oracle :
  forall (pre : option (preproc Z)) (n fuel : nat) (rows : list row) (ds : list Z) (A : lmat Z)
         (f1 f2 f3 f4 : bool) (res : snf_result Z),
  rows_wf n rows -> smith_diag fuel rows = Some ds ->
  meq (length rows) n (dense rows) (lget Z_ring A) ->
  snf_spec (Zpre_dict pre) (length rows) n A f1 f2 f3 f4 res ->
  snf_rank (Zpre_dict pre) res = length ds /\ snf_factors (Zpre_dict pre) res = ds.
Proof. exact snf_vs_oracle. Qed.
Print Assumptions C09_unique_oracle.

(* the oracle's Smith property determines the list *)
Theorem C09_unique_SmithOf :
  forall (m n : nat) (B : mat Z) (ds ds' : list Z), SmithOf m n B ds -> SmithOf m n B ds' -> ds = ds'.
Proof. exact SmithOf_unique. Qed.
Print Assumptions C09_unique_SmithOf.

(* ---------- rank modulo a prime = number of invariant factors prime to p ---------- *)
(* [cnt_unit p a r] = #{k < r : p does not divide a_k},  [cnt_div p a r] = #{k < r : p | a_k};
   the rank over F_p is the size of ANY Smith-type form of A mod p over F_p *)
Theorem C09_modp_rank :
  forall p : Z, prime p ->
  forall (m n : nat) (A : mat Z) (r : nat) (a : nat -> Z) (rp : nat) (c : nat -> fp p),
  smith_form Z_ring m n A r a ->
  (forall k, S k < r -> (a k | a (S k))%Z) ->
  smith_form (fp_ring p) m n (fun i j => fp_mk p (A i j)) rp c ->
  rp = cnt_unit p a r /\ rp + cnt_div p a r = r.
Proof. exact modp_rank. Qed.
Print Assumptions C09_modp_rank.

Theorem C09_modp_count_meaning :
  forall (p : Z) (a : nat -> Z) (r : nat),
  cnt_unit p a r = length (filter (fun k => negb (a k mod p =? 0)%Z) (seq 0 r)) /\
  cnt_div p a r = length (filter (fun k => (a k mod p =? 0)%Z) (seq 0 r)).
Proof. intros. split; reflexivity. Qed.
Print Assumptions C09_modp_count_meaning.

(* such a form exists: A mod p is equivalent over F_p to diag(a_k mod p), the entries prime to p first *)
Theorem C09_modp_form :
  forall p : Z, prime p ->
  forall (m n : nat) (A : mat Z) (r : nat) (a : nat -> Z),
  smith_form Z_ring m n A r a ->
  (forall k, S k < r -> (a k | a (S k))%Z) ->
  smith_form (fp_ring p) m n (fun i j => fp_mk p (A i j)) (cnt_unit p a r) (fun k => fp_mk p (a k)).
Proof. exact modp_smith_form. Qed.
Print Assumptions C09_modp_form.

(* for the two executable routines: the count is the one the oracle's F_2 / F_3 tables use ([not_div], C03) *)
Theorem C09_modp_rank_oracle :
  forall p : Z, prime p ->
  forall (n fuel : nat) (rows : list row) (ds : list Z) (rp : nat) (c : nat -> fp p),
  rows_wf n rows -> smith_diag fuel rows = Some ds ->
  smith_form (fp_ring p) (length rows) n (fun i j => fp_mk p (dense rows i j)) rp c ->
  rp = length (filter (not_div p) ds).
Proof. exact oracle_modp_rank. Qed.
Print Assumptions C09_modp_rank_oracle.

Theorem C09_modp_rank_snf :
  forall p : Z, prime p ->
  forall (pre : option (preproc Z)) (m n : nat) (A : lmat Z) (f1 f2 f3 f4 : bool) (res : snf_result Z)
         (rp : nat) (c : nat -> fp p),
  snf_spec (Zpre_dict pre) m n A f1 f2 f3 f4 res ->
  smith_form (fp_ring p) m n (fun i j => fp_mk p (lget Z_ring A i j)) rp c ->
  rp = length (filter (not_div p) (snf_factors (Zpre_dict pre) res)).
Proof. exact snf_modp_rank. Qed.
Print Assumptions C09_modp_rank_snf.

(* the mirrored snf over F_p on A mod p against the mirrored snf over Z on A *)
Theorem C09_Z_vs_Fp :
  forall p : Z, prime p ->
  forall (pre : option (preproc Z)) (m n : nat) (A : lmat Z) (f1 f2 f3 f4 g1 g2 g3 g4 : bool)
         (res : snf_result Z) (res' : snf_result (fp p)),
  snf_spec (Zpre_dict pre) m n A f1 f2 f3 f4 res ->
  snf_spec (fp_dict p) m n (map (map (fp_mk p)) A) g1 g2 g3 g4 res' ->
  snf_rank (fp_dict p) res' = length (filter (not_div p) (snf_factors (Zpre_dict pre) res)).
Proof. exact snf_Z_vs_Fp. Qed.
Print Assumptions C09_Z_vs_Fp.

(* ---------- non-vacuity ---------- *)
Open Scope Z_scope.
Definition exA : lmat Z := [[2; 4; 4]; [-6; 6; 12]].

(* the run of C09_example_Z meets the contract, so the hypotheses of the theorems above are satisfiable ... *)
Example C09_unique_example_spec :
  exists res, snf Z_dict (mk_dmat 2 3 exA) (true, true, true, true) = Some res /\
              snf_spec Z_dict 2 3 exA true true true true res /\
              snf_factors Z_dict res = [2; 6] /\
              exists r a, smith_form Z_ring 2 3 (lget Z_ring exA) r a /\ chain Z_ring r a /\
                          forall k, (k < r)%nat -> 0 < a k.
Proof.
  assert (W : wf 2 3 exA) by (split; [reflexivity|repeat constructor]).
  destruct (Z_snf_total 2 3 exA true true true true W) as [res [E HS]].
  exists res. split; [exact E|]. split; [exact HS|].
  destruct (spec_smith_form Z_dict 2 3 exA true true true true res HS) as [F [C _]].
  cbv zeta in F, C. vm_compute in E. injection E as <-.
  split; [reflexivity|].
  eexists. eexists. split; [exact F|]. split; [exact C|].
  intros k Hk. change (k < 2)%nat in Hk.
  destruct k as [|[|k]]; [reflexivity|reflexivity|lia].
Qed.

(* ... and every Smith form of exA with a positive divisibility chain is diag(2, 6) *)
Example C09_unique_example :
  forall r' a', smith_form Z_ring 2 3 (lget Z_ring exA) r' a' ->
    (forall k, (S k < r')%nat -> (a' k | a' (S k))) -> (forall k, (k < r')%nat -> 0 < a' k) ->
    r' = 2%nat /\ a' 0%nat = 2 /\ a' 1%nat = 6.
Proof.
  intros r' a' F' C' P'.
  assert (W : wf 2 3 exA) by (split; [reflexivity|repeat constructor]).
  destruct (Z_snf_total_unique 2 3 exA true true true true W) as [res [E [_ HU]]].
  destruct (HU r' a' F' C' P') as [Er Ha].
  vm_compute in E. injection E as <-.
  assert (E2 : r' = 2%nat) by (rewrite <- Er; reflexivity).
  subst r'. split; [reflexivity|]. split; [rewrite <- (Ha 0%nat) by lia|rewrite <- (Ha 1%nat) by lia]; reflexivity.
Qed.

(* rank of exA mod 2 is 0, mod 3 is 1, mod 5 is 2 *)
Example C09_modp_example :
  forall rp c, smith_form (fp_ring 3) 2 3 (fun i j => fp_mk 3 (lget Z_ring exA i j)) rp c -> rp = 1%nat.
Proof.
  intros rp c Fp.
  destruct C09_unique_example_spec as [res [_ [HS [Ef _]]]].
  pose proof (snf_modp_rank 3 prime_3 None 2 3 exA true true true true res rp c HS Fp) as H.
  change (Zpre_dict None) with Z_dict in H. rewrite Ef in H. exact H.
Qed.
