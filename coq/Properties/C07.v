(* C07 - Homology of any chain complex over a Euclidean domain is computed correctly.
   Property theorems only; every proof is [exact <lemma>] and is followed by Print Assumptions.

   Model: Model/HomologyCalc.v (mirror of HomologyCalc::{calculate, process_snf, result, trans}, Trans,
   Summand, ChainComplexBase::homology_at; a Rust panic is None).  The Smith-normal-form routine is a
   parameter [snf] of the model; every theorem is stated for EVERY routine that meets [snf_contract]
   (Proofs/C07Calc.v): the specification that property C09 proves for the mirror of snf.rs
   (D = P*A*Q, P*P^-1 = I = P^-1*P, Q*Q^-1 = I = Q^-1*Q with the untracked matrices existential,
   D diagonal, its non-zero entries first, D_ii | D_(i+1)(i+1), tracked matrices square of the right size
   and absent when their flag is off) plus the zero shortcut of SnfCalc::process (zero input ->
   identity transformations).  The ring is any commutative ring with laws that is an integral domain
   ([ring_laws], [integral] of Base/Ring.v); [isu] is its unit test.

   Notation: d1 : C1 -> C2 is the incoming differential (an n x m matrix, n = nr d1), d2 : C2 -> C3 the
   outgoing one; [zero_prod o d1 d2] is d2 * d1 = 0; [mget o A] is the entry function of a dense matrix and
   all matrix identities are identities of Base/MatF.v ([mmul], [meq], [mid], [mvec]).
   [smith_form o m n A r a]: A is equivalent (by invertible P, Q) to diag(a_0, .., a_(r-1), 0, ..) with
   all a_i <> 0 - "r is the rank of A and a_0 .. a_(r-1) its diagonal form". *)
From Coq Require Import Arith List Bool.
Require Import Yui.Base.Ring Yui.Base.MatF Yui.Base.MatL Yui.Model.HomologyCalc.
Require Import Yui.Proofs.C07Algebra Yui.Proofs.C07Calc.
Import ListNotations.

(* rank = n - rank d_in - rank d_out, and the torsion is the list of the non-unit entries of the diagonal
   form of d_in, in order: the diagonal entries form a divisibility chain, the units come first and the
   t non-units are the last t of the r1 non-zero entries.  (Holds with and without with_trans.) *)
Theorem C07_rank_tors :
  forall (R : Type) (o : ring_ops R), ring_laws o -> integral o ->
  forall isu : R -> bool,
  (forall a b : R, rmul o a b = rone o -> isu a = true) ->
  forall snf : dmat R -> bool -> bool -> bool -> bool -> option (snf_result R),
  (forall a : R, isu a = true -> exists b : R, rmul o a b = rone o) ->
  forall (d1 d2 : dmat R) (wt : bool) (rank : nat) (tors : list R) (tr : option (trans R)),
  snf_contract o snf -> mwf d1 -> mwf d2 -> zero_prod o d1 d2 ->
  calculate o isu snf d1 d2 wt = Some (rank, tors, tr) ->
  nr d1 = nc d2 /\
  exists (r1 r2 : nat) (a b : nat -> R) (t : nat),
    smith_form o (nr d1) (nc d1) (mget o d1) r1 a /\
    smith_form o (nr d2) (nc d2) (mget o d2) r2 b /\
    rank + r1 + r2 = nr d1 /\
    (forall i : nat, S i < r1 -> exists c : R, a (S i) = rmul o (a i) c) /\
    tors = non_units isu (map a (seq 0 r1)) /\
    t = length tors /\ t <= r1 /\ tors = map a (seq (r1 - t) t) /\
    (forall i : nat, i < r1 - t -> isu (a i) = true) /\
    (forall i : nat, r1 - t <= i < r1 -> isu (a i) = false).
Proof. exact @calculate_rank_tors. Qed.
Print Assumptions C07_rank_tors.

(* with_trans = true: the forward matrix p (coordinates) and the backward matrix q (generators) satisfy
   [gens_ok]:  d2 * q = 0,  p * q = I,  and for every chain x the coordinates p * d1 * x of the boundary
   are 0 in the free part and multiples of the corresponding torsion order in the torsion part. *)
Theorem C07_generators :
  forall (R : Type) (o : ring_ops R), ring_laws o -> integral o ->
  forall isu : R -> bool,
  (forall a b : R, rmul o a b = rone o -> isu a = true) ->
  forall snf : dmat R -> bool -> bool -> bool -> bool -> option (snf_result R),
  (forall a : R, isu a = true -> exists b : R, rmul o a b = rone o) ->
  forall (d1 d2 : dmat R) (rank : nat) (tors : list R) (tr : option (trans R)),
  snf_contract o snf -> mwf d1 -> mwf d2 -> zero_prod o d1 d2 ->
  calculate o isu snf d1 d2 true = Some (rank, tors, tr) ->
  exists (t : trans R) (p q : dmat R),
    tr = Some t /\ forward_mat o t = Some p /\ backward_mat o t = Some q /\
    src_dim t = nr d1 /\ tgt_dim t = rank + length tors /\
    gens_ok o d1 d2 rank tors p q.
Proof. exact @calculate_generators. Qed.
Print Assumptions C07_generators.

(* the meaning of [gens_ok], pinned *)
Theorem C07_gens_ok_meaning :
  forall (R : Type) (o : ring_ops R) (d1 d2 : dmat R) (rank : nat) (tors : list R) (p q : dmat R),
  gens_ok o d1 d2 rank tors p q <->
  (let h := rank + length tors in
   let n := nr d1 in
   nr p = h /\ nc p = n /\ nr q = n /\ nc q = h /\
   meq (nr d2) h (mmul o n (mget o d2) (mget o q)) (mzero o) /\
   meq h h (mmul o n (mget o p) (mget o q)) (mid o) /\
   (forall (x : nat -> R) (i : nat), i < h ->
      let y := mvec o n (mget o p) (mvec o (nc d1) (mget o d1) x) in
      (i < rank -> y i = rzero o) /\
      (rank <= i -> exists c : R, y i = rmul o (nth (i - rank) tors (rzero o)) c))).
Proof. intros. reflexivity. Qed.
Print Assumptions C07_gens_ok_meaning.
