(* C02 - Khovanov homology is a link invariant with the expected mirror duality.
   Invariance under Reidemeister / Markov moves and the duality Kh(mirror) = Kh^* are theorems of knot
   theory about the definition; they are NOT proved here.  They are evaluated on every generated pair of
   diagrams, on the implementation's tables and (small pairs) against the oracle.  Proved: the
   structural fact behind duality for the model - the cube of the mirror diagram is the cube of the
   diagram with complemented states (same circles at complementary vertices, weights k <-> n-k). *)
From Coq Require Import List Bool Arith.
Require Import Yui.Model.KhCube Yui.Proofs.KhMirror.
Import ListNotations.

Theorem C02_mirror_involutive : forall l, mirror (mirror l) = l.
Proof. exact mirror_invol. Qed.
Print Assumptions C02_mirror_involutive.

Theorem C02_mirror_crossings : forall l, crossing_num (mirror l) = crossing_num l.
Proof. exact crossing_num_mirror. Qed.
Print Assumptions C02_mirror_crossings.

Theorem C02_mirror_cube : forall l s, crossing_num l <= length s ->
  circles (resolve_by (mirror l) s) = circles (resolve_by l (map negb s)).
Proof. exact circles_mirror. Qed.
Print Assumptions C02_mirror_cube.

Theorem C02_mirror_weight : forall s, weight (map negb s) + weight s = length s.
Proof. exact weight_negb. Qed.
Print Assumptions C02_mirror_weight.

Example C02_example :
  circles (resolve_by (mirror [(CX, (1, 4, 2, 5)); (CX, (3, 6, 4, 1)); (CX, (5, 2, 6, 3))]) [true; false; true])
  = circles (resolve_by [(CX, (1, 4, 2, 5)); (CX, (3, 6, 4, 1)); (CX, (5, 2, 6, 3))] [false; true; false]).
Proof. vm_compute. reflexivity. Qed.
