(* C16 - Polynomial and linear-combination types form the free algebra they denote.
   Property theorems only; every proof is [exact <lemma>] and is followed by Print Assumptions.

   Models: Model/Lc.v (Lc<X,R>: hash map as association list), Model/Mono.v (Var, Var2, Var3, MultiDeg,
   MultiVar over an exponent dictionary: N = usize with checked subtraction, Z = isize), Model/Poly.v
   (PolyBase, HPoly, straight-line programs over registers).
   Quantification: every commutative ring [o] with [ring_laws o] (Base/Ring.v), every key type with a
   correct boolean equality, every monomial dictionary [m] satisfying [mono_laws m ok] -- proved below
   for Var/Var2/Var3/MultiVar over every exponent type that order-embeds into Z ([exp_laws], proved for
   N and Z).

   Vocabulary (defined in Proofs/C16*.v):
     coeff xeqb o l x      the coefficient the hash map returns (first match, default zero)
     rcoeff xeqb o l x     the coefficient of x in l read as a raw formal sum: the sum of all matching terms
     NoZero o l            keys pairwise distinct and no stored coefficient is zero
     KeysOk ok l           every stored key satisfies ok (MultiVar: the multi-degree is Reduced)
     WF m o ok p           NoZero o p /\ KeysOk ok p
     peq m o p q           forall z, coeff p z = coeff q z
     Reduced e d           MultiDeg: indices strictly increasing and no stored exponent is zero
     ord_laws P cmp        on P: (cmp x y = Eq <-> x = y), cmp y x = CompOpp (cmp x y), Lt is transitive *)
From Coq Require Import List Bool Arith NArith ZArith Permutation.
Require Import Yui.Base.Ring Yui.Model.Lc Yui.Model.Mono Yui.Model.Poly.
Require Import Yui.Proofs.C16Lc Yui.Proofs.C16Mono Yui.Proofs.C16MDeg Yui.Proofs.C16Poly Yui.Proofs.C16Eval.
Import ListNotations.

(* ================= linear combinations over any generator type ================= *)
Section LcTheorems.
  Context {X R : Type} (xeqb : X -> X -> bool) (o : ring_ops R).
  Context (xeqb_eq : forall x y, xeqb x y = true <-> x = y) (L : ring_laws o).

  (* no zero coefficient, no duplicate key: for every constructor result and after every operation *)
  Theorem C16_lc_no_zero :
    NoZero o ([] : lc X R) /\
    (forall it, NoZero o (from_iter xeqb o it)) /\
    (forall a b, NoZero o a -> NoZero o (add xeqb o a b)) /\
    (forall a b, NoZero o a -> NoZero o (sub xeqb o a b)) /\
    (forall a, NoZero o (neg xeqb o a)) /\
    (forall (a : lc X R) c, NoZero o a -> NoZero o (smul o a c)) /\
    (forall f a b, NoZero o (lc_combine xeqb o f a b)) /\
    (forall p a, NoZero o (filter_gens xeqb o p a)) /\
    (forall f a, NoZero o (map_gens xeqb o f a)) /\
    (forall f a, NoZero o (apply xeqb o f a)).
  Proof.
    exact (conj (@NoZero_nil X R o) (conj (NoZero_from_iter xeqb o xeqb_eq L) (conj (NoZero_add xeqb o xeqb_eq L)
          (conj (NoZero_sub xeqb o xeqb_eq L) (conj (NoZero_neg xeqb o xeqb_eq L) (conj (NoZero_smul o L)
          (conj (NoZero_combine xeqb o xeqb_eq L) (conj (NoZero_filter_gens xeqb o xeqb_eq L)
          (conj (NoZero_map_gens xeqb o xeqb_eq L) (NoZero_apply xeqb o xeqb_eq L)))))))))).
  Qed.

  (* from_iter normalises a raw term list without changing any coefficient *)
  Theorem C16_lc_from_iter : forall it z, coeff xeqb o (from_iter xeqb o it) z = rcoeff xeqb o it z.
  Proof. exact (coeff_from_iter xeqb o xeqb_eq L). Qed.

  Theorem C16_lc_add : forall a b z, NoZero o a -> NoZero o b ->
    coeff xeqb o (add xeqb o a b) z = radd o (coeff xeqb o a z) (coeff xeqb o b z).
  Proof. exact (coeff_add xeqb o xeqb_eq L). Qed.
  Theorem C16_lc_sub : forall a b z, NoZero o a -> NoZero o b ->
    coeff xeqb o (sub xeqb o a b) z = radd o (coeff xeqb o a z) (rneg o (coeff xeqb o b z)).
  Proof. exact (coeff_sub xeqb o xeqb_eq L). Qed.
  Theorem C16_lc_neg : forall a z, NoZero o a -> coeff xeqb o (neg xeqb o a) z = rneg o (coeff xeqb o a z).
  Proof. exact (coeff_neg xeqb o xeqb_eq L). Qed.
  Theorem C16_lc_smul : forall a c z, NoZero o a -> coeff xeqb o (smul o a c) z = rmul o (coeff xeqb o a z) c.
  Proof. exact (coeff_smul xeqb o xeqb_eq L). Qed.

  (* the product over any key map f: coeff (a*b) z = sum over x in supp a, y in supp b with f x y = z *)
  Theorem C16_lc_combine : forall f a b z, NoZero o a -> NoZero o b ->
    coeff xeqb o (lc_combine xeqb o f a b) z =
    rsum o (map (fun x => rsum o (map (fun y => if xeqb (f x y) z then rmul o (coeff xeqb o a x) (coeff xeqb o b y)
                                                 else rzero o) (keys b))) (keys a)).
  Proof. exact (coeff_combine xeqb o xeqb_eq L). Qed.

  Theorem C16_lc_filter_gens : forall p a z, NoZero o a ->
    coeff xeqb o (filter_gens xeqb o p a) z = if p z then coeff xeqb o a z else rzero o.
  Proof. exact (coeff_filter_gens xeqb o xeqb_eq L). Qed.
  (* map_gens f sums the coefficients of all generators with the same image *)
  Theorem C16_lc_map_gens : forall f a z,
    coeff xeqb o (map_gens xeqb o f a) z = lsum o (fun x r => if xeqb (f x) z then r else rzero o) a.
  Proof. exact (coeff_map_gens xeqb o xeqb_eq L). Qed.
  Theorem C16_lc_apply : forall f a z,
    coeff xeqb o (apply xeqb o f a) z =
    lsum o (fun x r => lsum o (fun y s => if xeqb y z then rmul o r s else rzero o) (f x)) a.
  Proof. exact (coeff_apply xeqb o xeqb_eq L). Qed.

  (* observers are those of the mathematical object *)
  Theorem C16_lc_is_zero : forall l, NoZero o l -> (is_zero l = true <-> forall x, coeff xeqb o l x = rzero o).
  Proof. exact (is_zero_iff xeqb o xeqb_eq). Qed.
  Theorem C16_lc_support : forall l, NoZero o l -> forall x, In x (keys l) <-> coeff xeqb o l x <> rzero o.
  Proof. exact (support_keys xeqb o xeqb_eq). Qed.
  Theorem C16_lc_nterms : forall a s, NoZero o a -> NoDup s -> (forall x, In x s <-> coeff xeqb o a x <> rzero o) ->
    nterms a = length s.
  Proof. exact (nterms_support xeqb o xeqb_eq). Qed.
  (* == of the hash maps is equality of the coefficient functions; the stored terms agree up to order *)
  Theorem C16_lc_eq : forall a b, NoZero o a -> NoZero o b ->
    (lc_eqb xeqb o a b = true <-> forall x, coeff xeqb o a x = coeff xeqb o b x).
  Proof. exact (lc_eqb_iff xeqb o xeqb_eq L). Qed.
  Theorem C16_lc_canonical : forall a b, NoZero o a -> NoZero o b ->
    (forall x, coeff xeqb o a x = coeff xeqb o b x) -> Permutation a b.
  Proof. exact (NoZero_perm xeqb o xeqb_eq). Qed.

  (* universal property: an additive functional of the terms only sees the coefficient function *)
  Theorem C16_lc_linear_ext : forall h a b, additive o h ->
    (forall x, rcoeff xeqb o a x = rcoeff xeqb o b x) -> lsum o h a = lsum o h b.
  Proof. exact (lsum_rcoeff_ext xeqb o xeqb_eq L). Qed.
End LcTheorems.
Print Assumptions C16_lc_no_zero.
Print Assumptions C16_lc_from_iter.
Print Assumptions C16_lc_add.
Print Assumptions C16_lc_sub.
Print Assumptions C16_lc_neg.
Print Assumptions C16_lc_smul.
Print Assumptions C16_lc_combine.
Print Assumptions C16_lc_filter_gens.
Print Assumptions C16_lc_map_gens.
Print Assumptions C16_lc_apply.
Print Assumptions C16_lc_is_zero.
Print Assumptions C16_lc_support.
Print Assumptions C16_lc_nterms.
Print Assumptions C16_lc_eq.
Print Assumptions C16_lc_canonical.
Print Assumptions C16_lc_linear_ext.

(* ================= polynomials over any monomial type with laws ================= *)
Section PolyTheorems.
  Context {X R : Type} (m : mono_ops X) (o : ring_ops R) (ok : X -> Prop).
  Context (ML : mono_laws m ok) (L : ring_laws o).
  Notation WF := (WF o ok).
  Notation coeff := (coeff (meqb m) o).
  Infix "==" := (peq m o) (at level 70).

  (* the invariant holds for every constructor result ... *)
  Theorem C16_no_zero_constructors :
    WF [] /\ (forall it, Forall ok (map fst it) -> WF (p_from_iter m o it)) /\
    (forall x r, ok x -> WF (p_from_pair m o x r)) /\ (forall r, WF (p_from_const m o r)) /\ WF (p_one m o).
  Proof.
    exact (conj (WF_nil o ok) (conj (WF_from_iter m o ok ML L) (conj (WF_from_pair m o ok ML L)
          (conj (WF_from_const m o ok ML L) (WF_one m o ok ML L))))).
  Qed.
  (* ... and is preserved by every operation *)
  Theorem C16_no_zero_preserved : forall a b, WF a -> WF b ->
    WF (p_add m o a b) /\ WF (p_sub m o a b) /\ WF (p_neg m o a) /\ (forall c, WF (p_smul o a c)) /\
    WF (p_mul m o a b) /\ WF (p_lc_mul m o a b) /\ (forall n, WF (p_pow m o a n)).
  Proof.
    exact (fun a b Ha Hb => conj (WF_add m o ok ML L a b Ha Hb) (conj (WF_sub m o ok ML L a b Ha Hb)
          (conj (WF_neg m o ok ML L a Ha) (conj (fun c => WF_smul o ok L a c Ha)
          (conj (WF_mul m o ok ML L a b Ha Hb) (conj (WF_lc_mul m o ok ML L a b Ha Hb)
          (fun n => WF_pow m o ok ML L a n Ha))))))).
  Qed.

  (* hence along every finite history: a straight-line program over registers (any mixture of from_iter,
     + - neg, scalar *, the special-cased *, the Lc product, pow, map_gens, filter_gens, apply) keeps every
     register WF, and every register denotes the raw formal expression computed by the same program
     without any accumulation or cleaning *)
  Theorem C16_histories : forall ops regs, Forall (op_ok ok) ops -> Forall WF regs ->
    Forall2 (fun p r => WF p /\ forall z, coeff p z = rcoeff (meqb m) o r z)
            (run m o ops regs) (raw_run m o ops regs).
  Proof. exact (histories m o ok ML L). Qed.

  (* + - neg and scalar multiplication are coefficientwise *)
  Theorem C16_add : forall a b z, WF a -> WF b -> coeff (p_add m o a b) z = radd o (coeff a z) (coeff b z).
  Proof. exact (coeff_p_add m o ok ML L). Qed.
  Theorem C16_sub : forall a b z, WF a -> WF b -> coeff (p_sub m o a b) z = radd o (coeff a z) (rneg o (coeff b z)).
  Proof. exact (coeff_p_sub m o ok ML L). Qed.
  Theorem C16_neg : forall a z, WF a -> coeff (p_neg m o a) z = rneg o (coeff a z).
  Proof. exact (coeff_p_neg m o ok ML L). Qed.
  Theorem C16_smul : forall a c z, WF a -> coeff (p_smul o a c) z = rmul o (coeff a z) c.
  Proof. exact (coeff_p_smul m o ok ML L). Qed.

  (* the product is the convolution over the supports *)
  Theorem C16_mul : forall a b z, WF a -> WF b ->
    coeff (p_mul m o a b) z =
    rsum o (map (fun x => rsum o (map (fun y => if meqb m (mmul m x y) z then rmul o (coeff a x) (coeff b y) else rzero o)
                                      (keys b))) (keys a)).
  Proof. exact (coeff_p_mul m o ok ML L). Qed.
  (* the special cases of *= (rhs one / rhs constant / self constant) equal the general Lc product *)
  Theorem C16_mul_assign_cases : forall a b, WF a -> WF b -> p_mul m o a b == p_lc_mul m o a b.
  Proof. exact (p_mul_spec m o ok ML L). Qed.
  Theorem C16_pow : forall a n, WF a -> p_pow m o a (S n) == p_lc_mul m o (p_pow m o a n) a.
  Proof. exact (pow_S m o ok ML L). Qed.
  Theorem C16_smul_is_mul_const : forall a c, WF a -> p_smul o a c == p_mul m o a (p_from_const m o c).
  Proof. exact (smul_mul_const m o ok ML L). Qed.

  (* == decides equality of the denoted polynomials; equal polynomials store the same terms *)
  Theorem C16_eq : forall a b, WF a -> WF b -> (p_eqb m o a b = true <-> a == b).
  Proof. exact (p_eqb_iff m o ok ML L). Qed.
  Theorem C16_canonical : forall a b, WF a -> WF b -> a == b -> Permutation a b.
  Proof. exact (peq_perm m o ok ML). Qed.

  (* commutative-ring axioms *)
  Theorem C16_add_comm : forall a b, WF a -> WF b -> p_add m o a b == p_add m o b a.
  Proof. exact (add_comm m o ok ML L). Qed.
  Theorem C16_add_assoc : forall a b c, WF a -> WF b -> WF c ->
    p_add m o a (p_add m o b c) == p_add m o (p_add m o a b) c.
  Proof. exact (add_assoc m o ok ML L). Qed.
  Theorem C16_add_zero : forall a, WF a -> p_add m o [] a == a.
  Proof. exact (add_0_l m o ok ML L). Qed.
  (* p + (-p) and p - p are the empty map (not just extensionally zero) *)
  Theorem C16_add_neg : forall a, WF a -> p_add m o a (p_neg m o a) = [] /\ p_sub m o a a = [].
  Proof. exact (add_neg_r m o ok ML L). Qed.
  Theorem C16_sub_is_add_neg : forall a b, WF a -> WF b -> p_sub m o a b == p_add m o a (p_neg m o b).
  Proof. exact (sub_add_neg m o ok ML L). Qed.
  Theorem C16_mul_comm : forall a b, WF a -> WF b -> p_mul m o a b == p_mul m o b a.
  Proof. exact (mul_comm m o ok ML L). Qed.
  Theorem C16_mul_assoc : forall a b c, WF a -> WF b -> WF c ->
    p_mul m o a (p_mul m o b c) == p_mul m o (p_mul m o a b) c.
  Proof. exact (mul_assoc m o ok ML L). Qed.
  Theorem C16_mul_one : forall a, WF a -> p_mul m o a (p_one m o) == a.
  Proof. exact (mul_1_r m o ok ML L). Qed.
  Theorem C16_distrib : forall a b c, WF a -> WF b -> WF c ->
    p_mul m o (p_add m o a b) c == p_add m o (p_mul m o a c) (p_mul m o b c).
  Proof. exact (mul_add_distr_r m o ok ML L). Qed.
  Theorem C16_mul_congruence : forall a a' b b', WF a -> WF a' -> WF b -> WF b' -> a == a' -> b == b' ->
    p_mul m o a b == p_mul m o a' b'.
  Proof. exact (mul_congr m o ok ML L). Qed.

  (* observers *)
  Theorem C16_is_zero : forall a, WF a -> (p_is_zero a = true <-> forall z, coeff a z = rzero o).
  Proof. exact (p_is_zero_iff m o ok ML). Qed.
  Theorem C16_nterms : forall a s, WF a -> NoDup s -> (forall x, In x s <-> coeff a x <> rzero o) ->
    p_nterms a = length s.
  Proof. exact (p_nterms_support m o ok ML). Qed.
  Theorem C16_support : forall a, WF a ->
    NoDup (keys a) /\ (forall x, In x (keys a) <-> coeff a x <> rzero o) /\ Forall ok (keys a) /\
    p_nterms a = length (keys a).
  Proof. exact (p_support m o ok ML). Qed.
  (* lead_term / lead_coeff / lead_deg: the grlex-maximal element of the support (strictly above every other) *)
  Theorem C16_lead_term : forall a, WF a -> a <> [] ->
    let x := p_lead_mono m o a in
    p_lead_coeff m o a = coeff a x /\ coeff a x <> rzero o /\
    forall y, coeff a y <> rzero o -> y <> x -> mcmp_grlex m y x = Lt.
  Proof. exact (lead_term_spec m o ok ML). Qed.
  Theorem C16_lead_term_zero : p_lead_term m o [] = (mone m, rzero o).
  Proof. exact (lead_term_zero m o). Qed.

  (* evaluation at any point (given as a multiplicative evaluation of monomials) is a ring homomorphism *)
  Theorem C16_eval_hom : forall ev : X -> R, ev (mone m) = rone o ->
    (forall x y, ok x -> ok y -> ev (mmul m x y) = rmul o (ev x) (ev y)) ->
    (forall a b, p_eval o ev (p_add m o a b) = radd o (p_eval o ev a) (p_eval o ev b)) /\
    (forall a b, p_eval o ev (p_sub m o a b) = radd o (p_eval o ev a) (rneg o (p_eval o ev b))) /\
    (forall a, p_eval o ev (p_neg m o a) = rneg o (p_eval o ev a)) /\
    (forall a c, p_eval o ev (p_smul o a c) = rmul o (p_eval o ev a) c) /\
    (forall a b, WF a -> WF b -> p_eval o ev (p_mul m o a b) = rmul o (p_eval o ev a) (p_eval o ev b)) /\
    (forall a n, WF a -> p_eval o ev (p_pow m o a n) = npow o (p_eval o ev a) n) /\
    p_eval o ev (p_one m o) = rone o /\ (forall c, p_eval o ev (p_from_const m o c) = c) /\
    (forall a b, WF a -> WF b -> a == b -> p_eval o ev a = p_eval o ev b).
  Proof.
    exact (fun ev e1 em => conj (eval_add m o ok ML L ev) (conj (eval_sub m o ok ML L ev) (conj (eval_neg m o ok ML L ev)
          (conj (eval_smul o L ev) (conj (eval_mul m o ok ML L ev em) (conj (eval_pow m o ok ML L ev e1 em)
          (conj (eval_one m o ok ML L ev e1) (conj (eval_const m o ok ML L ev e1) (eval_congr m o ok ML L ev))))))))).
  Qed.

  (* the monomial orders are total orders compatible with multiplication *)
  Theorem C16_orders :
    ord_laws ok (mcmp_lex m) /\ ord_laws ok (mcmp_grlex m) /\
    (forall x y z, ok x -> ok y -> ok z -> mcmp_lex m (mmul m x z) (mmul m y z) = mcmp_lex m x y) /\
    (forall x y z, ok x -> ok y -> ok z -> mcmp_grlex m (mmul m x z) (mmul m y z) = mcmp_grlex m x y).
  Proof. exact (conj (mlex_ord m ok ML) (conj (mgrlex_ord m ok ML) (conj (mlex_mul m ok ML) (mgrlex_mul m ok ML)))). Qed.
End PolyTheorems.
Print Assumptions C16_no_zero_constructors.
Print Assumptions C16_no_zero_preserved.
Print Assumptions C16_histories.
Print Assumptions C16_add.
Print Assumptions C16_sub.
Print Assumptions C16_neg.
Print Assumptions C16_smul.
Print Assumptions C16_mul.
Print Assumptions C16_mul_assign_cases.
Print Assumptions C16_pow.
Print Assumptions C16_smul_is_mul_const.
Print Assumptions C16_eq.
Print Assumptions C16_canonical.
Print Assumptions C16_add_comm.
Print Assumptions C16_add_assoc.
Print Assumptions C16_add_zero.
Print Assumptions C16_add_neg.
Print Assumptions C16_sub_is_add_neg.
Print Assumptions C16_mul_comm.
Print Assumptions C16_mul_assoc.
Print Assumptions C16_mul_one.
Print Assumptions C16_distrib.
Print Assumptions C16_mul_congruence.
Print Assumptions C16_is_zero.
Print Assumptions C16_nterms.
Print Assumptions C16_support.
Print Assumptions C16_lead_term.
Print Assumptions C16_lead_term_zero.
Print Assumptions C16_eval_hom.
Print Assumptions C16_orders.

(* ================= the concrete monomial types satisfy the laws ================= *)
(* what [ord_laws] says, spelled out *)
Theorem C16_ord_laws_meaning : forall (A : Type) (P : A -> Prop) (cmp : A -> A -> comparison),
  ord_laws P cmp <->
  ((forall x y, P x -> P y -> (cmp x y = Eq <-> x = y)) /\
   (forall x y, P x -> P y -> cmp y x = CompOpp (cmp x y)) /\
   (forall x y z, P x -> P y -> P z -> cmp x y = Lt -> cmp y z = Lt -> cmp x z = Lt)).
Proof. exact (fun A P cmp => conj (fun H => H) (fun H => H)). Qed.
Print Assumptions C16_ord_laws_meaning.

Theorem C16_exp_usize : exp_laws N_exp Z.of_N.
Proof. exact N_exp_laws. Qed.
Print Assumptions C16_exp_usize.
Theorem C16_exp_isize : exp_laws Z_exp (fun z => z).
Proof. exact Z_exp_laws. Qed.
Print Assumptions C16_exp_isize.

(* Var, Var2, Var3: commutative monoids, lex and grlex total orders compatible with the product, checked
   division sound; every value is valid *)
Theorem C16_var_laws : forall I (e : exp_ops I) eZ, exp_laws e eZ -> mono_laws (var_mono e) any.
Proof. exact (@var_laws). Qed.
Print Assumptions C16_var_laws.
Theorem C16_var2_laws : forall I (e : exp_ops I) eZ, exp_laws e eZ -> mono_laws (var2_mono e) any.
Proof. exact (@var2_laws). Qed.
Print Assumptions C16_var2_laws.
Theorem C16_var3_laws : forall I (e : exp_ops I) eZ, exp_laws e eZ -> mono_laws (var3_mono e) any.
Proof. exact (@var3_laws). Qed.
Print Assumptions C16_var3_laws.
(* MultiVar: the same on reduced multi-degrees *)
Theorem C16_mvar_laws : forall I (e : exp_ops I) eZ, exp_laws e eZ -> mono_laws (mvar_mono e) (Reduced e).
Proof. exact (@mvar_laws). Qed.
Print Assumptions C16_mvar_laws.

(* MultiDeg never stores a zero exponent: constructors and operations return reduced values, which are
   determined by their exponent function (so derived Eq / Hash are those of the multi-degree) *)
Theorem C16_mdeg_reduced : forall I (e : exp_ops I) eZ, exp_laws e eZ ->
  Reduced e [] /\ (forall it, Reduced e (md_from_iter e it)) /\
  (forall a b, Reduced e a -> Reduced e (md_add e a b)) /\
  (forall a b c, Reduced e a -> Reduced e b -> md_sub e a b = Some c -> Reduced e c /\ md_add e c b = a) /\
  (forall a, esigned e = true -> Reduced e a -> Reduced e (md_neg e a) /\ md_add e a (md_neg e a) = []).
Proof.
  exact (fun I e eZ EL => conj (Reduced_nil e) (conj (Reduced_from_iter e eZ EL) (conj (Reduced_add e eZ EL)
        (conj (md_sub_sound e eZ EL) (fun a S => Reduced_neg e eZ EL a S))))).
Qed.
Print Assumptions C16_mdeg_reduced.
Theorem C16_mdeg_add : forall I (e : exp_ops I) eZ, exp_laws e eZ -> forall a b i,
  Reduced e a -> Reduced e b -> md_at e (md_add e a b) i = eadd e (md_at e a i) (md_at e b i).
Proof. exact (@at_add). Qed.
Print Assumptions C16_mdeg_add.
Theorem C16_mdeg_ext : forall I (e : exp_ops I) a b,
  Reduced e a -> Reduced e b -> (forall i, md_at e a i = md_at e b i) -> a = b.
Proof. exact (@mdeg_ext). Qed.
Print Assumptions C16_mdeg_ext.
Theorem C16_mdeg_total : forall I (e : exp_ops I) eZ, exp_laws e eZ -> forall a b,
  Reduced e a -> md_total e (md_add e a b) = eadd e (md_total e a) (md_total e b).
Proof. exact (@total_add). Qed.
Print Assumptions C16_mdeg_total.
(* cmp_lex is the lexicographic comparison of the exponent functions from index 0 upwards *)
Theorem C16_mdeg_cmp_lex : forall I (e : exp_ops I) eZ, exp_laws e eZ -> forall a b n,
  mbound a <= n -> mbound b <= n -> md_cmp_lex e a b = lexn n (fz e eZ a) (fz e eZ b).
Proof. exact (@cmp_lex_lexn). Qed.
Print Assumptions C16_mdeg_cmp_lex.

(* evaluation of Poly / Poly2 / Poly3 (usize exponents) is a ring homomorphism: the hypotheses of
   C16_eval_hom hold for ev1, ev2, ev3 at every point *)
Theorem C16_eval_monomials : forall R (o : ring_ops R), ring_laws o ->
  (forall x, ev1 o x (mone (var_mono N_exp)) = rone o /\
             forall i j, ev1 o x (mmul (var_mono N_exp) i j) = rmul o (ev1 o x i) (ev1 o x j)) /\
  (forall x y, ev2 o x y (mone (var2_mono N_exp)) = rone o /\
               forall i j, ev2 o x y (mmul (var2_mono N_exp) i j) = rmul o (ev2 o x y i) (ev2 o x y j)) /\
  (forall x y z, ev3 o x y z (mone (var3_mono N_exp)) = rone o /\
                 forall i j, ev3 o x y z (mmul (var3_mono N_exp) i j) = rmul o (ev3 o x y z i) (ev3 o x y z j)).
Proof.
  exact (fun R o L => conj (fun x => conj (ev1_one o x) (ev1_mul o L x))
        (conj (fun x y => conj (ev2_one o L x y) (ev2_mul o L x y))
              (fun x y z => conj (ev3_one o L x y z) (ev3_mul o L x y z)))).
Qed.
Print Assumptions C16_eval_monomials.

(* ================= HPoly (one homogeneous term) ================= *)
Theorem C16_hpoly_eq : forall R (o : ring_ops R), ring_laws o -> forall a b,
  h_eqb o a b = true <-> forall k, h_coeff o a k = h_coeff o b k.
Proof. exact (@h_eqb_iff). Qed.
Print Assumptions C16_hpoly_eq.
Theorem C16_hpoly_add : forall R (o : ring_ops R), ring_laws o -> forall a b,
  (forall c, h_add o a b = Some c -> forall k, h_coeff o c k = radd o (h_coeff o a k) (h_coeff o b k)) /\
  (h_add o a b = None <-> hco a <> rzero o /\ hco b <> rzero o /\ hdeg a <> hdeg b).
Proof. exact (fun R o L a b => conj (h_add_spec o L a b) (h_add_none o L a b)). Qed.
Print Assumptions C16_hpoly_add.
Theorem C16_hpoly_ops : forall R (o : ring_ops R), ring_laws o -> forall a b,
  (forall k, h_coeff o (h_neg o a) k = rneg o (h_coeff o a k)) /\
  (forall c, h_sub o a b = Some c -> forall k, h_coeff o c k = radd o (h_coeff o a k) (rneg o (h_coeff o b k))) /\
  (forall c k, h_coeff o (h_smul o a c) k = rmul o (h_coeff o a k) c) /\
  (forall k, h_coeff o (h_mul o a b) k = if (k =? hdeg a + hdeg b)%N then rmul o (hco a) (hco b) else rzero o).
Proof.
  exact (fun R o L a b => conj (h_neg_spec o L a) (conj (h_sub_spec o L a b) (conj (h_smul_spec o L a) (h_mul_spec o L a b)))).
Qed.
Print Assumptions C16_hpoly_ops.

(* ================= non-vacuity ================= *)
(* rings with laws exist beyond Z *)
Example C16_rings_exist : ring_laws Z_ring /\ ring_laws Gauss_ring.
Proof. exact (conj Z_ring_laws Gauss_ring_laws). Qed.

(* concrete values over Z[x]:  (x+1)(x-1) = x^2 - 1  (the cross terms cancel and are dropped),
   p - p is the empty map, the term count is 2, the leading term is x^2 *)
Example C16_example_univariate :
  let m := var_mono N_exp in
  let a := p_from_iter m Z_ring [(1%N, 1%Z); (0%N, 1%Z)] in
  let b := p_from_iter m Z_ring [(1%N, 1%Z); (0%N, (-1)%Z)] in
  WF Z_ring any a /\ WF Z_ring any b /\
  p_mul m Z_ring a b = [(2%N, 1%Z); (0%N, (-1)%Z)] /\
  p_sub m Z_ring (p_mul m Z_ring a b) (p_mul m Z_ring b a) = [] /\
  p_lead_term m Z_ring (p_mul m Z_ring a b) = (2%N, 1%Z) /\
  eval1 Z_ring (p_mul m Z_ring a b) 5%Z = 24%Z.
Proof.
  cbv zeta. split; [|split].
  - apply (WF_from_iter _ _ _ (var_laws N_exp Z.of_N N_exp_laws) Z_ring_laws). repeat constructor.
  - apply (WF_from_iter _ _ _ (var_laws N_exp Z.of_N N_exp_laws) Z_ring_laws). repeat constructor.
  - vm_compute. repeat split; reflexivity.
Qed.

(* a MultiVar polynomial with isize exponents: x0 * x0^-1 is the constant 1; zero exponents are dropped *)
Example C16_example_multivar :
  let m := mvar_mono Z_exp in
  let x := md_from_iter Z_exp [(0, 1%Z); (3, 0%Z)] in
  let xi := md_from_iter Z_exp [(0, (-1)%Z)] in
  x = [(0, 1%Z)] /\ Reduced Z_exp x /\ mmul m x xi = [] /\
  p_mul m Z_ring (p_from_mono m Z_ring x) (p_from_mono m Z_ring xi) = p_one m Z_ring /\
  md_cmp_grlex Z_exp x xi = Gt.
Proof.
  cbv zeta. split; [reflexivity|]. split; [apply (Reduced_from_iter Z_exp (fun z => z) Z_exp_laws)|].
  vm_compute. repeat split; reflexivity.
Qed.
