(* C02 - invariance statements about the cube-of-resolutions ORACLE (Model/KhCube.v + KhHomology.v) that
   are plain combinatorics (DESIGN.md section 5, C02: C02_relabel, C02_reverse, duality of a finite
   complex).  Invariance under Reidemeister / Markov moves is knot theory and is NOT proved.

   (0) [circles] is a canonical form: it only depends on the connectivity of the crossingless diagram.
   (1) relabelling the edges by rho:
       - rho injective on the edge labels: at every state the circles are the images of the original
         circles (same partition of the edges), listed in the order of their new least labels; same
         number of circles; same number of generators per (cube degree, quantum degree) (unreduced);
       - rho strictly increasing on the edge labels (e.g. e |-> 2e+7): nothing is reordered and ALL data of
         the model are literally equal up to rho on the stored circles: vertices, generators, the
         sparse differentials c_rows, the base edge of the reduced complex, and the tables
         kh_groups / kh_groups_bigraded.
       NOT proved (statement kept below as a comment): equality of the tables for rho injective but not
       order preserving.  There the circles of a vertex come in another order, the generators of each
       vertex are permuted and c_rows differ by permutation matrices (see C02_example_relabel_inj);
       equality of the tables would follow from SmithOf_unique (Proofs/C09UniqueKh.v) plus the
       generator bijection, which is not formalised.
   (2) orientation reversal [a,b,c,d] -> [c,d,a,b] of every crossing: all data literally equal.
   (3) reordering the crossings: the multiset of (weight, circles) over all states is invariant, hence
       the number of generators in every (cube degree, quantum degree); signs change, the isomorphism
       of the complexes is NOT proved.
   (4) duality: the transpose has the same Smith factors; the model's tables are [tables] of the
       generator counts and factor lists; exchanging the factor lists moves ranks / F_p-dimensions
       i -> N-i and torsion i+1 -> N-i. *)
From Coq Require Import List Bool Arith ZArith Lia Permutation.
Require Import Yui.Base.Ring Yui.Base.MatF.
Require Import Yui.Model.KhCube Yui.Model.KhHomology.
Require Import Yui.Proofs.KhSmithMat Yui.Proofs.KhSmithMain.
Require Import Yui.Proofs.C02Sorted Yui.Proofs.C02Canon Yui.Proofs.C02Relabel Yui.Proofs.C02CubeMap
               Yui.Proofs.C02RelabelCube Yui.Proofs.C02Reverse Yui.Proofs.C02Reorder Yui.Proofs.C02Dims
               Yui.Proofs.C02Dual.
Import ListNotations.
Close Scope Z_scope.

(* ---------- (0) canonical form of [circles] ---------- *)
Theorem C02_circles_spec : forall l,
  pgood (circles l) /\ ksorted (hd 0) (circles l) /\
  (forall e, covered (circles l) e <-> In e (all_edges l)) /\
  (forall a b, cls (circles l) a b <-> conn l a b).
Proof. exact circles_spec. Qed.
Print Assumptions C02_circles_spec.

Theorem C02_circles_canonical : forall l1 l2,
  (forall a b, conn l1 a b <-> conn l2 a b) -> circles l1 = circles l2.
Proof. exact circles_ext. Qed.
Print Assumptions C02_circles_canonical.

(* ---------- (1) relabelling ---------- *)
Theorem C02_relabel_circles : forall rho l s, inj_on rho (all_edges l) ->
  circles (resolve_by (relabel rho l) s) = sort_classes (map (push rho) (circles (resolve_by l s))).
Proof. exact circles_resolve_relabel. Qed.
Print Assumptions C02_relabel_circles.

Theorem C02_relabel_circle_count : forall rho l s, inj_on rho (all_edges l) ->
  length (circles (resolve_by (relabel rho l) s)) = length (circles (resolve_by l s)).
Proof. exact circles_relabel_length. Qed.
Print Assumptions C02_relabel_circle_count.

Theorem C02_relabel_inj_dims : forall rho l h t k,
  inj_on rho (all_edges l) ->
  (forall q, count_gens (build_cube (relabel rho l) None h t) k (fun g => Z.eqb (q_local g) q)
             = count_gens (build_cube l None h t) k (fun g => Z.eqb (q_local g) q)) /\
  count_gens (build_cube (relabel rho l) None h t) k (fun _ => true)
  = count_gens (build_cube l None h t) k (fun _ => true).
Proof.
  intros rho l h t k H. split; [intros q|].
  - exact (count_gens_relabel_inj rho l h t k _ _ H (sel_wx_q q)).
  - exact (count_gens_relabel_inj rho l h t k _ _ H sel_wx_all).
Qed.
Print Assumptions C02_relabel_inj_dims.

Theorem C02_relabel_circles_mono : forall rho l s, mono_on rho (all_edges l) ->
  circles (resolve_by (relabel rho l) s) = map (map rho) (circles (resolve_by l s)).
Proof. exact circles_resolve_relabel_mono. Qed.
Print Assumptions C02_relabel_circles_mono.

(* the whole cube: [cube_map (map rho)] applies rho to the circles stored in the generators and leaves
   c_n and c_rows untouched *)
Theorem C02_relabel_cube : forall rho l red, mono_on rho (opt_list red ++ all_edges l) -> forall h t,
  build_cube (relabel rho l) (option_map rho red) h t = cube_map (map rho) (build_cube l red h t).
Proof. exact build_cube_relabel. Qed.
Print Assumptions C02_relabel_cube.

Theorem C02_relabel_rows : forall rho l red, mono_on rho (opt_list red ++ all_edges l) -> forall h t,
  c_rows (build_cube (relabel rho l) (option_map rho red) h t) = c_rows (build_cube l red h t).
Proof. exact c_rows_relabel. Qed.
Print Assumptions C02_relabel_rows.

Theorem C02_relabel_first_edge : forall rho l, mono_on rho (all_edges l) ->
  first_edge (relabel rho l) = option_map rho (first_edge l).
Proof. exact first_edge_relabel. Qed.
Print Assumptions C02_relabel_first_edge.

Theorem C02_relabel_partial : forall rho l red, mono_on rho (opt_list red ++ all_edges l) -> forall h t,
  kh_groups (build_cube (relabel rho l) (option_map rho red) h t) = kh_groups (build_cube l red h t) /\
  kh_groups_bigraded (build_cube (relabel rho l) (option_map rho red) h t)
  = kh_groups_bigraded (build_cube l red h t).
Proof.
  intros rho l red H h t. split;
    [exact (kh_groups_relabel rho l red H h t)|exact (kh_groups_bigraded_relabel rho l red H h t)].
Qed.
Print Assumptions C02_relabel_partial.

(* reduced complex with the library's own base edge (Link::first_edge) on both sides *)
Theorem C02_relabel_reduced_partial : forall rho l h t, mono_on rho (all_edges l) ->
  kh_groups (build_cube (relabel rho l) (first_edge (relabel rho l)) h t)
  = kh_groups (build_cube l (first_edge l) h t) /\
  kh_groups_bigraded (build_cube (relabel rho l) (first_edge (relabel rho l)) h t)
  = kh_groups_bigraded (build_cube l (first_edge l) h t).
Proof.
  intros rho l h t H. rewrite (build_cube_relabel_first rho l h t H).
  split; [apply kh_groups_map|apply kh_groups_bigraded_map].
Qed.
Print Assumptions C02_relabel_reduced_partial.

(* Full statement of C02_relabel, NOT proved (only its order-preserving case C02_relabel_partial /
   C02_relabel_reduced_partial and the consequences
   C02_relabel_circles / C02_relabel_inj_dims for injective rho are):
     forall rho l h t, inj_on rho (all_edges l) ->
       kh_groups (build_cube (relabel rho l) None h t) = kh_groups (build_cube l None h t) /\
       kh_groups_bigraded (build_cube (relabel rho l) None h t) = kh_groups_bigraded (build_cube l None h t). *)

(* ---------- (2) orientation reversal ---------- *)
Theorem C02_reverse_circles : forall l s,
  circles (resolve_by (reverse l) s) = circles (resolve_by l s).
Proof. exact circles_resolve_reverse. Qed.
Print Assumptions C02_reverse_circles.

Theorem C02_reverse : forall l red h t,
  build_cube (reverse l) red h t = build_cube l red h t /\ first_edge (reverse l) = first_edge l.
Proof. intros l red h t. split; [apply build_cube_reverse|apply first_edge_reverse]. Qed.
Print Assumptions C02_reverse.

Theorem C02_reverse_tables : forall l h t,
  kh_groups (build_cube (reverse l) None h t) = kh_groups (build_cube l None h t) /\
  kh_groups_bigraded (build_cube (reverse l) None h t) = kh_groups_bigraded (build_cube l None h t) /\
  kh_groups (build_cube (reverse l) (first_edge (reverse l)) h t) = kh_groups (build_cube l (first_edge l) h t) /\
  kh_groups_bigraded (build_cube (reverse l) (first_edge (reverse l)) h t)
  = kh_groups_bigraded (build_cube l (first_edge l) h t).
Proof. intros l h t. now rewrite build_cube_reverse_first, build_cube_reverse. Qed.
Print Assumptions C02_reverse_tables.

(* ---------- (3) reordering the crossings ---------- *)
Theorem C02_reorder_circles : forall l l', Permutation l l' ->
  crossing_num l = crossing_num l' /\
  Permutation (map (fun s => (weight s, circles (resolve_by l s))) (all_lists (crossing_num l)))
              (map (fun s => (weight s, circles (resolve_by l' s))) (all_lists (crossing_num l'))).
Proof. intros l l' P. split; [now apply crossing_num_perm|exact (W_perm l l' P)]. Qed.
Print Assumptions C02_reorder_circles.

Theorem C02_reorder_dims : forall l l' red h t k, Permutation l l' ->
  (forall q, count_gens (build_cube l' red h t) k (fun g => Z.eqb (q_local g) q)
             = count_gens (build_cube l red h t) k (fun g => Z.eqb (q_local g) q)) /\
  count_gens (build_cube l' red h t) k (fun _ => true) = count_gens (build_cube l red h t) k (fun _ => true).
Proof.
  intros l l' red h t k P. split; [intros q|].
  - exact (count_gens_perm l l' red h t k _ _ P (sel_wx_q q)).
  - exact (count_gens_perm l l' red h t k _ _ P sel_wx_all).
Qed.
Print Assumptions C02_reorder_dims.

(* ---------- (4) duality of the table arithmetic ---------- *)
Theorem C02_smith_transpose : forall m n A ds, SmithOf m n A ds -> SmithOf n m (ztr A) ds.
Proof. exact SmithOf_transpose. Qed.
Print Assumptions C02_smith_transpose.

Theorem C02_tables_of_model : forall c sel todo k dprev gs,
  groups_from c sel k todo dprev = Some gs ->
  exists Ds, length Ds = todo /\
    (forall j, j < todo -> factors c (k + j) sel = Some (nth j Ds [])) /\
    map snd gs = tables_from (map (fun k => count_gens c k sel) (seq k todo)) Ds dprev.
Proof. exact groups_from_tables. Qed.
Print Assumptions C02_tables_of_model.

Theorem C02_group_at_swap : forall n dprev dk,
  g_rank (group_at n dk dprev) = g_rank (group_at n dprev dk) /\
  g_dim2 (group_at n dk dprev) = g_dim2 (group_at n dprev dk) /\
  g_dim3 (group_at n dk dprev) = g_dim3 (group_at n dprev dk) /\
  forall n' dnext, g_tors (group_at n dk dprev) = g_tors (group_at n' dk dnext).
Proof. exact group_at_swap. Qed.
Print Assumptions C02_group_at_swap.

(* dimensions n_0..n_N, factor lists D_0..D_(N-1) of d_0..d_(N-1) (d_N = 0); the dual complex has the
   reversed dimensions and - by C02_smith_transpose - the reversed factor lists *)
Theorem C02_dual_tables : forall ns Ds0 N, length ns = S N -> length Ds0 = N ->
  forall i, i <= N ->
  let g := nth i (tables ns (Ds0 ++ [[]])) g0 in
  let g' := nth (N - i) (tables (rev ns) (rev Ds0 ++ [[]])) g0 in
  g_rank g' = g_rank g /\ g_dim2 g' = g_dim2 g /\ g_dim3 g' = g_dim3 g /\
  g_tors g' = g_tors (nth (S i) (tables ns (Ds0 ++ [[]])) g0) /\
  g_tors (nth 0 (tables ns (Ds0 ++ [[]])) g0) = [].
Proof. exact dual_tables. Qed.
Print Assumptions C02_dual_tables.

(* ---------- non-vacuity ---------- *)
Definition trefoil : link := [(CX, (1, 4, 2, 5)); (CX, (3, 6, 4, 1)); (CX, (5, 2, 6, 3))].
Definition rho27 (e : nat) : nat := 2 * e + 7.

Example C02_example_rho_mono : mono_on rho27 (opt_list (first_edge trefoil) ++ all_edges trefoil).
Proof. intros a b _ _ H. unfold rho27. apply Nat.add_lt_mono_r, Nat.mul_lt_mono_pos_l; [repeat constructor|exact H]. Qed.

Example C02_example_relabel :
  relabel rho27 trefoil = [(CX, (9, 15, 11, 17)); (CX, (13, 19, 15, 9)); (CX, (17, 11, 19, 13))] /\
  circles (resolve_by (relabel rho27 trefoil) [true; false; false]) = [[9; 11; 15; 17]; [13; 19]] /\
  circles (resolve_by trefoil [true; false; false]) = [[1; 2; 4; 5]; [3; 6]] /\
  c_rows (build_cube (relabel rho27 trefoil) None 0 0) = c_rows (build_cube trefoil None 0 0) /\
  nth 1 (c_rows (build_cube trefoil None 0 0)) None
  = Some [[(0, (-1)%Z); (2, (-1)%Z)]; [(1, (-1)%Z); (3, (-1)%Z)]; [(1, (-1)%Z); (3, (-1)%Z)]; [];
          [(0, 1%Z); (4, (-1)%Z)]; [(1, 1%Z); (5, (-1)%Z)]; [(1, 1%Z); (5, (-1)%Z)]; [];
          [(2, 1%Z); (4, 1%Z)]; [(3, 1%Z); (5, 1%Z)]; [(3, 1%Z); (5, 1%Z)]; []] /\
  kh_groups (build_cube (relabel rho27 trefoil) None 0 0)
  = Some [(0, mk_group 1 [] 2 1); (1, mk_group 1 [2%Z] 2 1); (2, mk_group 0 [] 0 0); (3, mk_group 2 [] 2 2)] /\
  kh_groups (build_cube (relabel rho27 trefoil) (first_edge (relabel rho27 trefoil)) 0 0)
  = kh_groups (build_cube trefoil (first_edge trefoil) 0 0) /\
  first_edge (relabel rho27 trefoil) = Some 9.
Proof. vm_compute. repeat split. Qed.

(* an injective but not order-preserving rho: the circles are re-sorted, the differentials are NOT
   literally equal (literal equality needs monotonicity), the tables are equal on this instance *)
Example C02_example_rho_inj : inj_on (fun e => 20 - e) (all_edges trefoil).
Proof. intros a b Ha Hb H. cbn in Ha, Hb. lia. Qed.

Example C02_example_relabel_inj :
  let rho := fun e => 20 - e in
  circles (resolve_by (relabel rho trefoil) [true; false; false]) = [[14; 17]; [15; 16; 18; 19]] /\
  sort_classes (map (push rho) (circles (resolve_by trefoil [true; false; false]))) = [[14; 17]; [15; 16; 18; 19]] /\
  c_rows (build_cube (relabel rho trefoil) None 0 0) <> c_rows (build_cube trefoil None 0 0) /\
  kh_groups (build_cube (relabel rho trefoil) None 0 0) = kh_groups (build_cube trefoil None 0 0) /\
  kh_groups_bigraded (build_cube (relabel rho trefoil) None 0 0) = kh_groups_bigraded (build_cube trefoil None 0 0).
Proof. vm_compute. repeat split. intros H. discriminate H. Qed.

Example C02_example_reverse :
  reverse trefoil = [(CX, (2, 5, 1, 4)); (CX, (4, 1, 3, 6)); (CX, (6, 3, 5, 2))] /\
  build_cube (reverse trefoil) (first_edge (reverse trefoil)) 3 0 = build_cube trefoil (first_edge trefoil) 3 0 /\
  kh_groups_bigraded (build_cube (reverse trefoil) None 0 0) = kh_groups_bigraded (build_cube trefoil None 0 0) /\
  kh_groups (build_cube (reverse trefoil) None 0 0)
  = Some [(0, mk_group 1 [] 2 1); (1, mk_group 1 [2%Z] 2 1); (2, mk_group 0 [] 0 0); (3, mk_group 2 [] 2 2)].
Proof. vm_compute. repeat split. Qed.

(* a 4-crossing diagram with its crossings permuted: the differentials differ, the generator counts agree *)
Definition dia4 : link := [(CX, (4, 2, 5, 1)); (CX, (8, 6, 1, 5)); (CXm, (6, 3, 7, 4)); (CXm, (2, 7, 3, 8))].
Definition dia4p : link := [(CXm, (6, 3, 7, 4)); (CX, (4, 2, 5, 1)); (CXm, (2, 7, 3, 8)); (CX, (8, 6, 1, 5))].

Example C02_example_reorder :
  Permutation dia4 dia4p /\
  c_rows (build_cube dia4p None 0 0) <> c_rows (build_cube dia4 None 0 0) /\
  map (fun k => count_gens (build_cube dia4p None 0 0) k (fun g => Z.eqb (q_local g) 1)) (seq 0 5) = [3; 8; 10; 4; 0] /\
  map (fun k => count_gens (build_cube dia4 None 0 0) k (fun g => Z.eqb (q_local g) 1)) (seq 0 5) = [3; 8; 10; 4; 0] /\
  kh_groups (build_cube dia4p None 0 0) = kh_groups (build_cube dia4 None 0 0).
Proof.
  split.
  - unfold dia4, dia4p.
    eapply Permutation_trans; [apply perm_skip, perm_swap|].
    eapply Permutation_trans; [apply perm_swap|]. apply perm_skip, perm_skip, perm_swap.
  - vm_compute. repeat split. intros H. discriminate H.
Qed.

(* duality on the trefoil and its mirror image (unreduced, h = t = 0): the factor lists of the mirror
   cube are the reversed factor lists (the hypothesis of C02_dual_tables holds on this instance), and
   both tables are [tables] of them: ranks 1,1,0,2 <-> 2,0,1,1 ; torsion Z/2 in degree 1 <-> degree 3 *)
Example C02_example_dual :
  let c := build_cube trefoil None 0 0 in
  let c' := build_cube (mirror trefoil) None 0 0 in
  let ns := [8; 12; 6; 4] in
  let Ds0 := [[1; 1; 1; 1; 1; 1; 2]; [1; 1; 1; 1]; [1; 1]]%Z in
  map (fun k => count_gens c k (fun _ => true)) (seq 0 4) = ns /\
  map (fun k => count_gens c' k (fun _ => true)) (seq 0 4) = rev ns /\
  map (fun k => factors c k (fun _ => true)) (seq 0 4) = map Some (Ds0 ++ [[]]) /\
  map (fun k => factors c' k (fun _ => true)) (seq 0 4) = map Some (rev Ds0 ++ [[]]) /\
  option_map (map snd) (kh_groups c) = Some (tables ns (Ds0 ++ [[]])) /\
  option_map (map snd) (kh_groups c') = Some (tables (rev ns) (rev Ds0 ++ [[]])) /\
  map g_rank (tables ns (Ds0 ++ [[]])) = [1; 1; 0; 2]%Z /\
  map g_rank (tables (rev ns) (rev Ds0 ++ [[]])) = [2; 0; 1; 1]%Z /\
  map g_tors (tables ns (Ds0 ++ [[]])) = [[]; [2%Z]; []; []] /\
  map g_tors (tables (rev ns) (rev Ds0 ++ [[]])) = [[]; []; []; [2%Z]].
Proof. vm_compute. repeat split. Qed.
