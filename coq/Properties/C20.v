(* C20 - The ykh command reports the library's result for every option combination.
   Property theorems only; every proof is [exact <lemma>] and is followed by Print Assumptions.

   Models: Model/Cli.v (clap value of -t, poly_vars, the dispatch macros, the FromStr implementations
   behind parse_pair, the ensure! guards, the bigraded / sequence choice, exit status) and
   Model/Table.v (rmod_str, display_table / display_seq, the prettytable FORMAT_CLEAN layout,
   trim / trim_end, println!) together with a reader of the printed text.
   Strings are lists of code points.  The link loader and the library computation are parameters of
   [run] ([link_status], [oracle]; the oracle's None = the library call panics). *)
From Coq Require Import ZArith NArith List Bool Arith Sorted.
Require Import Yui.Model.Table Yui.Model.Cli.
Require Import Yui.Proofs.C20Str Yui.Proofs.C20Layout Yui.Proofs.C20Table Yui.Proofs.C20Rmod
               Yui.Proofs.C20Print Yui.Proofs.C20Cli Yui.Proofs.C20Final Yui.Proofs.C20Pair.
Import ListNotations.

(* ================= 1. every option combination is classified ================= *)

(* -t: exactly the six verbatim names are accepted (anything else is clap's usage error, exit 2) *)
Theorem C20_ctype_names : forall s ty, parse_ctype s = Some ty <-> s = ctype_name ty.
Proof. exact parse_ctype_spec. Qed.
Print Assumptions C20_ctype_names.

(* the comma separated pieces of the -c string (what poly_vars looks at) *)
Theorem C20_split_comma : forall c,
  join [44%N] (split_on 44 c) = c /\ (forall t, In t (split_on 44 c) -> ~ In 44%N t).
Proof. exact split_comma_spec. Qed.
Print Assumptions C20_split_comma.

Theorem C20_poly_vars : forall c,
  poly_vars c = match existsb (str_eqb s_H) (split_on 44 c), existsb (str_eqb s_T) (split_on 44 c) with
                | true, true => PV_HT | true, false => PV_H | false, true => PV_T | false, false => PV_None
                end
  /\ (existsb (str_eqb s_H) (split_on 44 c) = true <-> In s_H (split_on 44 c))
  /\ (existsb (str_eqb s_T) (split_on 44 c) = true <-> In s_T (split_on 44 c)).
Proof. exact poly_vars_spec. Qed.
Print Assumptions C20_poly_vars.

(* the macro cascade try_ring / try_eucring / try_std / try_qint / try_euc_poly / try_noneuc_poly selects a
   ring exactly on the set [supported] (written independently: scalars always; one polynomial variable
   unless kh over Z; two variables only for ckh; Gauss / Eisen never), and then it is the ring
   base(-t)[variables of -c]; otherwise the result is an error *)
Theorem C20_dispatch_total : forall cmd ty c,
  dispatch cmd ty c = if supported cmd ty (poly_vars c)
                      then TRun (Ring (base_of ty) (poly_vars c))
                      else TErr (unsupported_error ty (poly_vars c)).
Proof. exact dispatch_spec. Qed.
Print Assumptions C20_dispatch_total.

(* the decision for every (command, -t, -c string, -r) *)
Theorem C20_decide_spec : forall cmd ty c reduced,
  decide cmd ty c reduced =
    if negb (supported cmd ty (poly_vars c)) then DError (unsupported_error ty (poly_vars c))
    else match parse_pair (Ring (base_of ty) (poly_vars c)) c with
         | PErr => DError EParse
         | PPanic => DError EPanic
         | POk (h, t) =>
             if reduced && negb (is_zero t) then DError EGuardReduced
             else DCompute (mk_params (Ring (base_of ty) (poly_vars c)) h t reduced
                    match cmd with
                    | Ckh => DGrid
                    | Kh => if (is_zero h && is_zero t) || str_eqb c s_H || str_eqb c s_0T then DBigraded else DSeq
                    end)
         end.
Proof. exact decide_spec. Qed.
Print Assumptions C20_decide_spec.

(* -c <integer>, for ALL integers z (printed in decimal): scalar ring, h = z (mod p over F_p), t = 0,
   bigraded table iff h = 0; outside the machine range (i64 for Z and Q, i32 for F_p): parse error *)
Theorem C20_decide_integer : forall cmd ty z reduced, is_scalar ty = true ->
  decide cmd ty (str_of_Z z) reduced =
    if (int_lo ty <=? z)%Z && (z <=? int_hi ty)%Z
    then DCompute (mk_params (Ring (base_of ty) PV_None) (VInt (reduce ty z)) (VInt 0) reduced
           match cmd with
           | Ckh => DGrid
           | Kh => if (reduce ty z =? 0)%Z then DBigraded else DSeq
           end)
    else DError EParse.
Proof. exact decide_integer. Qed.
Print Assumptions C20_decide_integer.

(* -c <a>,<b>, for ALL pairs of integers (pair_str a b = the decimal a, a comma, the decimal b): scalar ring,
   h = a and t = b (mod p over F_p); -r with t <> 0 in the ring is the guard error; `kh` prints the bigraded
   table iff BOTH constants vanish in the ring (kh.rs: h.is_zero() && t.is_zero()), otherwise the sequence:
   Lee-type theories `-c 0,1`, `-c 0,2`, `-t F2 -c 2,1` are sequences, `-t F2 -c 0,2` is bigraded *)
Theorem C20_decide_int_pair : forall cmd ty a b reduced, is_scalar ty = true ->
  decide cmd ty (pair_str a b) reduced =
    if in_range ty a && in_range ty b
    then if reduced && negb (reduce ty b =? 0)%Z then DError EGuardReduced
         else DCompute (mk_params (Ring (base_of ty) PV_None) (VInt (reduce ty a)) (VInt (reduce ty b)) reduced
                match cmd with
                | Ckh => DGrid
                | Kh => if (reduce ty a =? 0)%Z && (reduce ty b =? 0)%Z then DBigraded else DSeq
                end)
    else DError EParse.
Proof. exact decide_int_pair. Qed.
Print Assumptions C20_decide_int_pair.

Theorem C20_kh_int_pair_bigraded_iff : forall ty a b reduced p, is_scalar ty = true ->
  decide Kh ty (pair_str a b) reduced = DCompute p ->
  (p_display p = DBigraded <-> reduce ty a = 0%Z /\ reduce ty b = 0%Z) /\
  (p_display p = DSeq <-> ~ (reduce ty a = 0%Z /\ reduce ty b = 0%Z)).
Proof. exact kh_int_pair_bigraded_iff. Qed.
Print Assumptions C20_kh_int_pair_bigraded_iff.

Theorem C20_int_print_parse : forall z, parse_Z_dec (str_of_Z z) = Some z.
Proof. exact parse_Z_dec_str_of_Z. Qed.
Print Assumptions C20_int_print_parse.

(* the listed symbolic values -c H, -c 0,T, -c H,T for every command, -t and -r *)
Theorem C20_decide_H : forall cmd ty reduced,
  decide cmd ty s_H reduced =
    if supported cmd ty PV_H
    then DCompute (mk_params (Ring (base_of ty) PV_H) (VMono 1 0) (VInt 0) reduced
                             match cmd with Kh => DBigraded | Ckh => DGrid end)
    else DError EUnsupported.
Proof. exact decide_H. Qed.
Print Assumptions C20_decide_H.

Theorem C20_decide_0T : forall cmd ty reduced,
  decide cmd ty s_0T reduced =
    if supported cmd ty PV_T
    then if reduced then DError EGuardReduced
         else DCompute (mk_params (Ring (base_of ty) PV_T) (VInt 0) (VMono 0 1) false
                                  match cmd with Kh => DBigraded | Ckh => DGrid end)
    else DError EUnsupported.
Proof. exact decide_0T. Qed.
Print Assumptions C20_decide_0T.

Theorem C20_decide_HT : forall cmd ty reduced,
  decide cmd ty s_HT reduced =
    if supported cmd ty PV_HT
    then if reduced then DError EGuardReduced
         else DCompute (mk_params (Ring (base_of ty) PV_HT) (VMono 1 0) (VMono 0 1) false DGrid)
    else DError EUnsupported.
Proof. exact decide_HT. Qed.
Print Assumptions C20_decide_HT.

(* ================= 2. errors are errors, never tables ================= *)

Theorem C20_decide_error_iff : forall cmd ty c reduced e,
  decide cmd ty c reduced = DError e <->
    (supported cmd ty (poly_vars c) = false /\ e = unsupported_error ty (poly_vars c)) \/
    (supported cmd ty (poly_vars c) = true /\
       match parse_pair (Ring (base_of ty) (poly_vars c)) c with
       | PErr => e = EParse
       | PPanic => e = EPanic
       | POk (h, t) => reduced = true /\ is_zero t = false /\ e = EGuardReduced
       end).
Proof. exact decide_error_iff. Qed.
Print Assumptions C20_decide_error_iff.

Theorem C20_run_spec : forall cmd t_arg c_arg mirror reduced link lib,
  run cmd t_arg c_arg mirror reduced link lib =
    match ctype_of_arg t_arg with
    | None => OError EClap
    | Some ty =>
        match decide cmd ty (cvalue_of_arg c_arg) reduced with
        | DError e => OError e
        | DCompute p =>
            match link with
            | LInvalid => OError ELink
            | LOk => match rendered p mirror lib with Some out => OTable out | None => OError EPanic end
            end
        end
    end.
Proof. exact run_spec. Qed.
Print Assumptions C20_run_spec.

(* a rejected -t, an unsupported combination, an unparsable or panicking -c, the reduced guard, an invalid
   link, a panic of the library: an error result with non-zero exit status *)
Theorem C20_error_not_table : forall cmd t_arg c_arg mirror reduced link lib,
  (ctype_of_arg t_arg = None \/
   (exists ty, ctype_of_arg t_arg = Some ty /\
      ((exists e, decide cmd ty (cvalue_of_arg c_arg) reduced = DError e) \/
       link = LInvalid \/
       (exists p, decide cmd ty (cvalue_of_arg c_arg) reduced = DCompute p /\ rendered p mirror lib = None)))) ->
  exists e, run cmd t_arg c_arg mirror reduced link lib = OError e /\ exit_code (OError e) <> 0%N.
Proof. exact run_error. Qed.
Print Assumptions C20_error_not_table.

(* conversely a table is printed only when every stage succeeded *)
Theorem C20_table_only_on_success : forall cmd t_arg c_arg mirror reduced link lib out,
  run cmd t_arg c_arg mirror reduced link lib = OTable out ->
  exists ty p, ctype_of_arg t_arg = Some ty /\
               decide cmd ty (cvalue_of_arg c_arg) reduced = DCompute p /\
               link = LOk /\ rendered p mirror lib = Some out.
Proof. exact run_table_inv. Qed.
Print Assumptions C20_table_only_on_success.

(* ================= 3. the table shows the right cells in the right places ================= *)

(* the FORMAT_CLEAN layout loses nothing: for every table whose title cells are non-empty and free of spaces
   and line breaks and whose other cells have no line break and no trailing space *)
Theorem C20_layout_roundtrip : forall t, wf_table t -> parse_layout (layout t) = Some t.
Proof. exact parse_layout_layout. Qed.
Print Assumptions C20_layout_roundtrip.

(* columns = the distinct i, ascending; rows = the distinct j, descending; the cell in row j, column i is
   the printed group at (i, j), or "." when there is none or it prints as "0" *)
Theorem C20_table_shape : forall sym g,
  Sorted Z.lt (cols_of g) /\ Sorted Z.lt (rev (rows_of g)) /\
  (forall i, In i (cols_of g) <-> exists j m, In ((i, j), m) g) /\
  (forall j, In j (rows_of g) <-> exists i m, In ((i, j), m) g) /\
  display_table sym s_i s_j g =
    (title_ij :: map str_of_Z (cols_of g)) ::
    map (fun j => str_of_Z j ::
                  map (fun i => match lookup2 g i j with
                                | Some m => if str_eqb (rmod_str sym m) [48%N] then dot else rmod_str sym m
                                | None => dot
                                end) (cols_of g))
        (rows_of g).
Proof. exact display_table_shape. Qed.
Print Assumptions C20_table_shape.

(* "0" is printed exactly for the zero module *)
Theorem C20_rmod_zero : forall symbol m, symbol <> [] -> symbol <> [48%N] ->
  (rmod_str symbol m = [48%N] <-> s_rank m = 0%N /\ s_tors m = []).
Proof. exact rmod_str_zero. Qed.
Print Assumptions C20_rmod_zero.

Theorem C20_ring_symbols_printable : forall r, good_symbol (ring_symbol r).
Proof. exact ring_symbol_good. Qed.
Print Assumptions C20_ring_symbols_printable.

(* the cells a reader must find = the supported (i, j) with a non-zero group, with the printed group *)
Theorem C20_cells_spec : forall sym g i j s, good_symbol sym ->
  (In ((i, j), s) (nonzero_cells sym g) <->
   exists m, lookup2 g i j = Some m /\ ~ is_zero_summand m /\ s = rmod_str sym m).
Proof. exact nonzero_cells_spec. Qed.
Print Assumptions C20_cells_spec.

(* reading back what `kh` (bigraded), `ckh` and `kh` (sequence) write to stdout *)
Theorem C20_kh_bigraded_roundtrip : forall sym g, good_symbol sym -> (forall e, In e g -> tors_one_line (snd e)) ->
  read_kh_bigraded (kh_stdout_bigraded sym g) = Some (nonzero_cells sym g).
Proof. exact kh_bigraded_roundtrip. Qed.
Print Assumptions C20_kh_bigraded_roundtrip.

Theorem C20_ckh_roundtrip : forall sym g, good_symbol sym -> (forall e, In e g -> tors_one_line (snd e)) ->
  read_ckh (ckh_stdout sym g) = Some (nonzero_cells sym g).
Proof. exact ckh_roundtrip. Qed.
Print Assumptions C20_ckh_roundtrip.

Theorem C20_kh_seq_roundtrip : forall sym g, good_symbol sym -> g <> [] -> (forall e, In e g -> tors_one_line (snd e)) ->
  read_kh_seq (kh_stdout_seq sym g) = Some (seq_cells sym g).
Proof. exact kh_seq_roundtrip. Qed.
Print Assumptions C20_kh_seq_roundtrip.

(* end to end in the model: whenever the command prints a table, that text read back is exactly the list
   of non-zero groups (at their (i, j)) which the library returned for the decided ring, h, t, reduced flag
   and mirror flag *)
Theorem C20_table_roundtrip : forall cmd t_arg c_arg mirror reduced link lib out,
  run cmd t_arg c_arg mirror reduced link lib = OTable out ->
  exists ty p,
    ctype_of_arg t_arg = Some ty /\ decide cmd ty (cvalue_of_arg c_arg) reduced = DCompute p /\ link = LOk /\
    let sym := ring_symbol (p_ring p) in
    match p_display p with
    | DBigraded =>
        exists g, lib_kh_bigraded lib p mirror = Some g /\ out = kh_stdout_bigraded sym g /\
                  ((forall e, In e g -> tors_one_line (snd e)) ->
                   read_kh_bigraded out = Some (nonzero_cells sym g))
    | DSeq =>
        exists g, lib_kh_seq lib p mirror = Some g /\ out = kh_stdout_seq sym g /\
                  (g <> [] -> (forall e, In e g -> tors_one_line (snd e)) ->
                   read_kh_seq out = Some (seq_cells sym g))
    | DGrid =>
        exists g, lib_ckh lib p mirror = Some g /\ out = ckh_stdout sym g /\
                  ((forall e, In e g -> tors_one_line (snd e)) ->
                   read_ckh out = Some (nonzero_cells sym g))
    end.
Proof. exact table_outcome_roundtrip. Qed.
Print Assumptions C20_table_roundtrip.

(* ================= non-vacuity ================= *)
Definition sZ : str := [90%N].
(* Kh(3_1; Z) as the library returns it (support = a 4 x 5 rectangle, mostly zero groups) *)
Definition trefoil_grid : grid2 :=
  [((-3,-9), mk_summand 1 []); ((-3,-7), zero_summand); ((-2,-7), mk_summand 0 [[50%N]]);
   ((-2,-5), mk_summand 1 []); ((-1,-5), zero_summand); ((0,-3), mk_summand 1 []); ((0,-1), mk_summand 1 []);
   ((-1,-1), zero_summand)]%Z.
Definition lib0 : oracle :=
  mk_oracle (fun _ _ => None) (fun _ m => if m then None else Some trefoil_grid) (fun _ _ => Some trefoil_grid).

Example C20_hypotheses_satisfiable :
  good_symbol sZ /\ (forall e, In e trefoil_grid -> tors_one_line (snd e)) /\
  wf_table (display_table sZ s_i s_j trefoil_grid).
Proof.
  split; [apply (ring_symbol_good (Ring BZ PV_None))|]. split.
  - intros e He. cbn in He. unfold tors_one_line.
    repeat (destruct He as [<-|He]; [cbn; repeat constructor; intros c [<-|[]]; discriminate|]). destruct He.
  - apply table_of_strs_wf.
    + intros i j s H. eapply show_cells_good; [apply (ring_symbol_good (Ring BZ PV_None)) | | exact H].
      intros e He. cbn in He. unfold tors_one_line.
      repeat (destruct He as [<-|He]; [cbn; repeat constructor; intros c [<-|[]]; discriminate|]). destruct He.
    + apply zero_goodc.
Qed.

(* `ykh kh 3_1` : the exact text, and what the reader recovers from it *)
Example C20_trefoil_text :
  run Kh None None false false LOk lib0 =
  OTable [106;92;105;32;32;45;51;32;32;45;50;32;32;32;32;32;45;49;32;32;48;32;10;
          32;45;49;32;32;32;46;32;32;32;46;32;32;32;32;32;32;46;32;32;32;90;32;10;
          32;45;51;32;32;32;46;32;32;32;46;32;32;32;32;32;32;46;32;32;32;90;32;10;
          32;45;53;32;32;32;46;32;32;32;90;32;32;32;32;32;32;46;32;32;32;46;32;10;
          32;45;55;32;32;32;46;32;32;32;40;90;47;50;41;32;32;46;32;32;32;46;32;10;
          32;45;57;32;32;32;90;32;32;32;46;32;32;32;32;32;32;46;32;32;32;46;10]%N.
Proof. vm_compute. reflexivity. Qed.
Example C20_trefoil_read_back :
  read_kh_bigraded (kh_stdout_bigraded sZ trefoil_grid) =
  Some [((0,-1), sZ); ((0,-3), sZ); ((-2,-5), sZ); ((-2,-7), [40;90;47;50;41]%N); ((-3,-9), sZ)]%Z.
Proof. vm_compute. reflexivity. Qed.

(* error outcomes: unsupported, parse error, guard, invalid link, library panic, clap *)
Example C20_errors :
  run Kh (Some [90%N]) (Some s_H) false false LOk lib0 = OError EUnsupported /\
  run Ckh (Some [90%N]) (Some s_H) false false LOk lib0 = OTable (ckh_stdout (ring_symbol (Ring BZ PV_H)) trefoil_grid) /\
  run Kh None (Some [49; 44]%N) false false LOk lib0 = OError EParse /\
  run Kh (Some [81%N]) (Some s_0T) false true LOk lib0 = OError EGuardReduced /\
  run Kh None None false false LInvalid lib0 = OError ELink /\
  run Kh None None true false LOk lib0 = OError EPanic /\
  run Kh (Some [88%N]) None false false LOk lib0 = OError EClap /\
  run Kh (Some [81%N]) (Some [49; 47; 48]%N) false false LOk lib0 = OError EPanic /\
  run Kh (Some [71; 97; 117; 115; 115]%N) None false false LOk lib0 = OError EFeature.
Proof. repeat split; vm_compute; reflexivity. Qed.

(* the integer theorem at the boundary of i64 *)
Example C20_integer_boundary :
  decide Kh TZ (str_of_Z (2 ^ 63 - 1)) false =
    DCompute (mk_params (Ring BZ PV_None) (VInt (2 ^ 63 - 1)) (VInt 0) false DSeq) /\
  decide Kh TZ (str_of_Z (2 ^ 63)) false = DError EParse /\
  decide Ckh TF3 (str_of_Z (-4)) true = DCompute (mk_params (Ring BF3 PV_None) (VInt 2) (VInt 0) true DGrid).
Proof. repeat split; vm_compute; reflexivity. Qed.

(* constant pairs: zero-ness is decided in the ring (2 = 0 in F2, 3 = 0 in F3); h = 0 with a non-zero
   constant t is a sequence, not a bigraded table *)
Example C20_constant_pairs :
  pair_str 0 1 = [48; 44; 49]%N /\ pair_str 0 (-1) = [48; 44; 45; 49]%N /\
  decide Kh TQ (pair_str 0 1) false = DCompute (mk_params (Ring BQ PV_None) (VInt 0) (VInt 1) false DSeq) /\
  decide Kh TZ (pair_str 0 2) false = DCompute (mk_params (Ring BZ PV_None) (VInt 0) (VInt 2) false DSeq) /\
  decide Kh TF2 (pair_str 0 2) false = DCompute (mk_params (Ring BF2 PV_None) (VInt 0) (VInt 0) false DBigraded) /\
  decide Kh TF2 (pair_str 2 1) false = DCompute (mk_params (Ring BF2 PV_None) (VInt 0) (VInt 1) false DSeq) /\
  decide Kh TF3 (pair_str 2 3) true = DCompute (mk_params (Ring BF3 PV_None) (VInt 2) (VInt 0) true DSeq) /\
  decide Kh TF3 (pair_str 3 3) true = DCompute (mk_params (Ring BF3 PV_None) (VInt 0) (VInt 0) true DBigraded) /\
  decide Kh TF3 (pair_str 0 (-1)) false = DCompute (mk_params (Ring BF3 PV_None) (VInt 0) (VInt 2) false DSeq) /\
  decide Kh TZ (pair_str 0 (-1)) true = DError EGuardReduced /\
  decide Ckh TF2 (pair_str 2 3) false = DCompute (mk_params (Ring BF2 PV_None) (VInt 0) (VInt 1) false DGrid).
Proof. repeat split; vm_compute; reflexivity. Qed.
