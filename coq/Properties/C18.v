(* C18 - Link diagrams: components, signs, resolutions and braid closures are correct.
   Property theorems only; every proof is [exact <lemma>] and is followed by Print Assumptions.

   Model: Model/Link.v (mirror of yui-link/src/link/{link.rs,crossing.rs,path.rs}), Model/Braid.v
   (Braid::closure).  A panic is [None]; the only unbounded loop (traverse_edges) runs on fuel 4n+1.
   [Valid l] : every edge label occurs exactly twice among the 4n slots (all four crossing types allowed,
   so kinks with repeated labels, split / multi-component diagrams, components that only pass over and
   partially or fully resolved diagrams are all covered).
   [InR l p] : p = (i, j) is a half-edge of l (i < n, j < 4).  [sigma l] : the successor half-edge (leave
   the crossing through the slot [pass] gives, follow the edge to its other end); [sig l k] its k-th
   iterate; [orbit_list l p m] = [p; sigma p; ..; sigma^(m-1) p].
   [thru l e e'] : e and e' are the labels at the two ends of a strand passing through one crossing;
   [conn l] its reflexive-transitive closure (it is symmetric) - the strand-through-crossing relation,
   which for a fully resolved diagram is the edge identification relation of the smoothing.

   PROVED for all inputs: traversal (permutation, fuel, one orbit), components (all circles, partition
   of the labels, = classes of conn, count = number of classes), resolutions (labels and validity kept,
   exactly the first |s| crossings resolved, panic iff the state is too long, a full state is
   crossingless with circle count = number of classes), signs negated by mirror and invariant under
   injective relabelling (for every code, valid or not), closure valid with one X crossing per letter.
   STAGED (not proved; covered by the exact correspondence run and by the invariance cases evaluated on
   the implementation, see vlib/c18.py):
   - C18_signs "orientation" clause: that the signs are those of an orientation agreeing with every
     under-strand direction 0->2 needs the code to be consistently oriented (planarity is not modelled);
   - invariance of writhe / signed numbers under crossing reordering: for a component that only passes
     over, the orientation chosen depends on the crossing order and the individual signs do change; the
     sums are invariant only because such a component has linking number 0 with the rest (a theorem about
     planar diagrams, outside this development);
   - closure: writhe = exponent sum (same caveat for strands that only pass over: closure [1,-1] gets
     the sign list [-,+]) and components = cycles of the braid permutation. *)
From Coq Require Import List Arith Bool ZArith.
Require Import Yui.Model.Link Yui.Model.Braid.
Require Import Yui.Proofs.C18Base Yui.Proofs.C18Traverse Yui.Proofs.C18Components Yui.Proofs.C18Resolve
  Yui.Proofs.C18Signs Yui.Proofs.C18Closure Yui.Proofs.C18Main.
Import ListNotations.

(* --- validity is decidable by the model's boolean ------------------------------------------------ *)
Theorem C18_valid_bool : forall l, valid l = true <-> Valid l.
Proof. exact valid_spec. Qed.
Print Assumptions C18_valid_bool.

(* --- the successor map of a valid code is a permutation of the 4n half-edges ---------------------- *)
Theorem C18_successor_total : forall l, Valid l -> forall p, InR l p ->
  succ l p = Some (sigma l p) /\ InR l (sigma l p).
Proof. intros l Hv p Hp. split; [exact (succ_sigma l Hv p Hp) | exact (sigma_InR l Hv p Hp)]. Qed.
Print Assumptions C18_successor_total.

Theorem C18_successor_injective : forall l, Valid l -> forall p q, InR l p -> InR l q ->
  sigma l p = sigma l q -> p = q.
Proof. exact sigma_inj. Qed.
Print Assumptions C18_successor_injective.

(* --- traverse_edges: fuel 4n+1 suffices, the traversal lists one orbit and then the start again --- *)
Theorem C18_traverse : forall l, Valid l -> forall start, InR l start ->
  exists m, 1 <= m /\ m <= 4 * length l /\ sig l m start = start /\ NoDup (orbit_list l start m) /\
            traverse_edges l start = Some (orbit_list l start m ++ [start]).
Proof. exact traverse_valid. Qed.
Print Assumptions C18_traverse.

(* an edge is never traversed in both directions by one orbit *)
Theorem C18_traverse_one_direction : forall l, Valid l -> forall d q, InR l q -> tau l q <> sig l d q.
Proof. intros l Hv d q Hq. exact (proj1 (tau_not_on_orbit l Hv d) q Hq). Qed.
Print Assumptions C18_traverse_one_direction.

(* --- components: all circles; they partition the labels; each is one class of conn ---------------- *)
Theorem C18_components : forall l, Valid l ->
  exists cs, components l = Some cs /\
    Forall (fun c => pclosed c = true /\ pedges c <> [] /\ exists p m, is_orbit_comp l c p m) cs /\
    NoDup (concat (map pedges cs)) /\
    (forall e, In e (concat (map pedges cs)) <-> In e (edge_labels l)) /\
    (forall c, In c cs -> forall e, In e (pedges c) -> forall e', In e' (pedges c) <-> conn l e e').
Proof. exact components_valid. Qed.
Print Assumptions C18_components.

(* the number of components is the number of classes (for every system of representatives) *)
Theorem C18_components_count : forall l, Valid l -> forall cs, components l = Some cs ->
  forall reps, reps_of l reps -> length cs = length reps.
Proof. exact components_count. Qed.
Print Assumptions C18_components_count.

(* --- resolutions ----------------------------------------------------------------------------------- *)
Theorem C18_resolved_by : forall s l,
  (length s <= crossing_num l ->
     exists l', resolved_by l s = Some l' /\ edge_labels l' = edge_labels l /\ length l' = length l /\
                crossing_num l' = crossing_num l - length s) /\
  (crossing_num l < length s -> resolved_by l s = None).
Proof. exact resolved_by_spec. Qed.
Print Assumptions C18_resolved_by.

Theorem C18_resolution_circles : forall l s, Valid l -> length s = crossing_num l ->
  exists l' cs, resolved_by l s = Some l' /\ crossing_num l' = 0 /\ edge_labels l' = edge_labels l /\
    Valid l' /\ components l' = Some cs /\
    Forall (fun c => pclosed c = true /\ pedges c <> []) cs /\
    NoDup (concat (map pedges cs)) /\
    (forall e, In e (concat (map pedges cs)) <-> In e (edge_labels l)) /\
    (forall c, In c cs -> forall e, In e (pedges c) -> forall e', In e' (pedges c) <-> conn l' e e') /\
    (forall reps, reps_of l' reps -> length cs = length reps).
Proof. exact resolution_circles. Qed.
Print Assumptions C18_resolution_circles.

(* --- signs (C18_signs, proved part) ------------------------------------------------------------- *)
Theorem C18_signs_mirror : forall l,
  crossing_signs (mirror l) = option_map (map neg_sign) (crossing_signs l) /\
  signed_crossing_nums (mirror l) = option_map (fun pn => (snd pn, fst pn)) (signed_crossing_nums l) /\
  writhe (mirror l) = option_map Z.opp (writhe l).
Proof. intros l. exact (conj (crossing_signs_mirror l) (conj (signed_nums_mirror l) (writhe_mirror l))). Qed.
Print Assumptions C18_signs_mirror.

Theorem C18_signs_relabel : forall rho l, inj_on rho (edge_labels l) ->
  crossing_signs (relabel rho l) = crossing_signs l /\
  signed_crossing_nums (relabel rho l) = signed_crossing_nums l /\ writhe (relabel rho l) = writhe l.
Proof.
  intros rho l H. exact (conj (crossing_signs_relabel rho l H) (writhe_relabel rho l H)).
Qed.
Print Assumptions C18_signs_relabel.

Theorem C18_components_relabel : forall rho l, inj_on rho (edge_labels l) ->
  components (relabel rho l) = option_map (map (relabel_path rho)) (components l).
Proof. exact components_relabel. Qed.
Print Assumptions C18_components_relabel.

Theorem C18_writhe_is_sum : forall l,
  writhe l = option_map (fun sg => (Z.of_nat (count_pos sg) - Z.of_nat (count_neg sg))%Z) (crossing_signs l) /\
  (forall sg, crossing_signs l = Some sg -> length sg = crossing_num l /\
     signed_crossing_nums l = Some (count_pos sg, count_neg sg) /\ count_pos sg + count_neg sg = crossing_num l).
Proof. exact writhe_def. Qed.
Print Assumptions C18_writhe_is_sum.

(* --- braid closure ------------------------------------------------------------------------------- *)
Theorem C18_closure : forall strands w l, closure strands w = Some l ->
  Valid l /\ length l = length w /\ crossing_num l = length w /\ Forall (fun c => ct c = X) l.
Proof. exact closure_valid. Qed.
Print Assumptions C18_closure.

(* --- non-vacuity --------------------------------------------------------------------------------- *)
Definition ex_trefoil : link := link_of_code [(1,4,2,5); (3,6,4,1); (5,2,6,3)].
Definition ex_kink : link := link_of_code [(0,0,1,1)].
Definition ex_over : link := link_of_code [(0,2,0,3); (1,3,1,2)].   (* a component that only passes over *)
Example C18_valid_examples : Valid ex_trefoil /\ Valid ex_kink /\ Valid ex_over /\ InR ex_trefoil (2, 3).
Proof.
  repeat split; try (apply valid_spec; vm_compute; reflexivity); cbn; repeat constructor.
Qed.
Example C18_trefoil_values :
  components ex_trefoil = Some [mkP [1; 2; 3; 4; 5; 6] true] /\ writhe ex_trefoil = Some (-3)%Z /\
  option_map (@length path) (match resolved_by ex_trefoil [true; true; true] with Some r => components r | None => None end) = Some 2.
Proof. vm_compute. auto. Qed.
Example C18_closure_examples :
  closure 2 [1; 1; 1]%Z = Some (link_of_code [(0,2,3,1); (2,4,5,3); (4,0,1,5)]) /\
  closure 3 [1; 1]%Z = None /\ closure 2 [2]%Z = None /\ closure 2 [0]%Z = None.
Proof. vm_compute. auto. Qed.
