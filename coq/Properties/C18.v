(* C18 - Link diagrams: components, signs, resolutions and braid closures are correct.
   Property theorems only; every proof is [exact <lemma>] and is followed by Print Assumptions.

   Model: Model/Link.v (mirror of yui-link/src/link/{link.rs,crossing.rs,path.rs}), Model/Braid.v
   (Braid::closure).  A panic is [None]; the only unbounded loop (traverse_edges) runs on fuel 4n+1.
   [Valid l] : every edge label occurs exactly twice among the 4n slots (all four crossing types allowed,
   so kinks with repeated labels, split / multi-component diagrams, components that only pass over and
   partially or fully resolved diagrams are all covered).
   [InR l p] : p = (i, j) is a half-edge of l (i < n, j < 4).  [sigma l] : the successor half-edge (leave
   the crossing through the slot [pass] gives, follow the edge to its other end); [sig l k] its k-th
   iterate; [orbit_list l p m] = [p; sigma p; ..; sigma^(m-1) p].
   [thru l e e'] : e and e' are the labels at the two ends of a strand passing through one crossing;
   [conn l] its reflexive-transitive closure (it is symmetric) - the strand-through-crossing relation,
   which for a fully resolved diagram is the edge identification relation of the smoothing.

   PROVED for all inputs: traversal (permutation, fuel, one orbit), components (all circles, partition
   of the labels, = classes of conn, count = number of classes), resolutions (labels and validity kept,
   exactly the first |s| crossings resolved, panic iff the state is too long, a full state is
   crossingless with circle count = number of classes), signs negated by mirror and invariant under
   injective relabelling (for every code, valid or not).
   Orientation clause (C18_signs_orientation, C18_signs_orientation_unique): for every valid code with unresolved crossings (X / Xm) that
   admits a consistent orientation o ([Oriented l o]: head/tail assignment to the half-edges compatible
   with the passage through crossings, with the two ends of every edge, and with the under-strand
   direction 0 -> 2 of every crossing - planarity is not modelled, so this is a hypothesis; braid closures
   satisfy it, C18_closure_oriented), crossing_signs returns exactly the signs of such an orientation o',
   equal to o on every component that passes under somewhere; if every component passes under somewhere
   (e.g. every knot diagram) the signs are those of o itself and a reordering of the crossings permutes
   the sign list, hence writhe and signed crossing numbers do not change (C18_signs_reorder).
   Braid closures, for EVERY word whose closure is defined (no letter 0, letters within the strands, no
   free loop): valid code, one X crossing per letter, consistently oriented downwards, sign list = the
   letters' signs up to reversal of components that never pass under (C18_closure_signs), writhe =
   exponent sum (C18_closure_writhe: the reversals cancel, by a potential-function argument on the
   positions occupied by the reversed strands), number of components = number of cycles of the braid
   permutation (C18_closure_components).
   NOT a theorem (impossible without planarity, which the model - like the code - does not capture):
   invariance of the writhe under crossing reordering for a code with a component that only passes over;
   C18_reorder_needs_planarity exhibits a valid, consistently oriented, non-planar code whose writhe
   changes from +1 to -1 when two crossings are exchanged.  For genuine (planar) diagrams this clause
   is covered by the invariance cases of the correspondence run (vlib/c18.py). *)
From Coq Require Import List Arith Bool ZArith Lia.
Require Import Yui.Model.Link Yui.Model.Braid.
From Coq Require Import Permutation.
Require Import Yui.Proofs.C18Base Yui.Proofs.C18Traverse Yui.Proofs.C18Components Yui.Proofs.C18Resolve
  Yui.Proofs.C18Signs Yui.Proofs.C18Closure Yui.Proofs.C18Main.
Require Import Yui.Proofs.C18Orient Yui.Proofs.C18OrientReorder Yui.Proofs.C18BraidRows
  Yui.Proofs.C18BraidOrient Yui.Proofs.C18BraidWrithe Yui.Proofs.C18BraidPerm Yui.Proofs.C18BraidCycles.
Import ListNotations.

(* --- validity is decidable by the model's boolean ------------------------------------------------ *)
Theorem C18_valid_bool : forall l, valid l = true <-> Valid l.
Proof. exact valid_spec. Qed.
Print Assumptions C18_valid_bool.

(* --- the successor map of a valid code is a permutation of the 4n half-edges ---------------------- *)
Theorem C18_successor_total : forall l, Valid l -> forall p, InR l p ->
  succ l p = Some (sigma l p) /\ InR l (sigma l p).
Proof. intros l Hv p Hp. split; [exact (succ_sigma l Hv p Hp) | exact (sigma_InR l Hv p Hp)]. Qed.
Print Assumptions C18_successor_total.

Theorem C18_successor_injective : forall l, Valid l -> forall p q, InR l p -> InR l q ->
  sigma l p = sigma l q -> p = q.
Proof. exact sigma_inj. Qed.
Print Assumptions C18_successor_injective.

(* --- traverse_edges: fuel 4n+1 suffices, the traversal lists one orbit and then the start again --- *)
Theorem C18_traverse : forall l, Valid l -> forall start, InR l start ->
  exists m, 1 <= m /\ m <= 4 * length l /\ sig l m start = start /\ NoDup (orbit_list l start m) /\
            traverse_edges l start = Some (orbit_list l start m ++ [start]).
Proof. exact traverse_valid. Qed.
Print Assumptions C18_traverse.

(* an edge is never traversed in both directions by one orbit *)
Theorem C18_traverse_one_direction : forall l, Valid l -> forall d q, InR l q -> tau l q <> sig l d q.
Proof. intros l Hv d q Hq. exact (proj1 (tau_not_on_orbit l Hv d) q Hq). Qed.
Print Assumptions C18_traverse_one_direction.

(* --- components: all circles; they partition the labels; each is one class of conn ---------------- *)
Theorem C18_components : forall l, Valid l ->
  exists cs, components l = Some cs /\
    Forall (fun c => pclosed c = true /\ pedges c <> [] /\ exists p m, is_orbit_comp l c p m) cs /\
    NoDup (concat (map pedges cs)) /\
    (forall e, In e (concat (map pedges cs)) <-> In e (edge_labels l)) /\
    (forall c, In c cs -> forall e, In e (pedges c) -> forall e', In e' (pedges c) <-> conn l e e').
Proof. exact components_valid. Qed.
Print Assumptions C18_components.

(* the number of components is the number of classes (for every system of representatives) *)
Theorem C18_components_count : forall l, Valid l -> forall cs, components l = Some cs ->
  forall reps, reps_of l reps -> length cs = length reps.
Proof. exact components_count. Qed.
Print Assumptions C18_components_count.

(* --- resolutions ----------------------------------------------------------------------------------- *)
Theorem C18_resolved_by : forall s l,
  (length s <= crossing_num l ->
     exists l', resolved_by l s = Some l' /\ edge_labels l' = edge_labels l /\ length l' = length l /\
                crossing_num l' = crossing_num l - length s) /\
  (crossing_num l < length s -> resolved_by l s = None).
Proof. exact resolved_by_spec. Qed.
Print Assumptions C18_resolved_by.

Theorem C18_resolution_circles : forall l s, Valid l -> length s = crossing_num l ->
  exists l' cs, resolved_by l s = Some l' /\ crossing_num l' = 0 /\ edge_labels l' = edge_labels l /\
    Valid l' /\ components l' = Some cs /\
    Forall (fun c => pclosed c = true /\ pedges c <> []) cs /\
    NoDup (concat (map pedges cs)) /\
    (forall e, In e (concat (map pedges cs)) <-> In e (edge_labels l)) /\
    (forall c, In c cs -> forall e, In e (pedges c) -> forall e', In e' (pedges c) <-> conn l' e e') /\
    (forall reps, reps_of l' reps -> length cs = length reps).
Proof. exact resolution_circles. Qed.
Print Assumptions C18_resolution_circles.

(* --- signs (C18_signs, proved part) ------------------------------------------------------------- *)
Theorem C18_signs_mirror : forall l,
  crossing_signs (mirror l) = option_map (map neg_sign) (crossing_signs l) /\
  signed_crossing_nums (mirror l) = option_map (fun pn => (snd pn, fst pn)) (signed_crossing_nums l) /\
  writhe (mirror l) = option_map Z.opp (writhe l).
Proof. intros l. exact (conj (crossing_signs_mirror l) (conj (signed_nums_mirror l) (writhe_mirror l))). Qed.
Print Assumptions C18_signs_mirror.

Theorem C18_signs_relabel : forall rho l, inj_on rho (edge_labels l) ->
  crossing_signs (relabel rho l) = crossing_signs l /\
  signed_crossing_nums (relabel rho l) = signed_crossing_nums l /\ writhe (relabel rho l) = writhe l.
Proof.
  intros rho l H. exact (conj (crossing_signs_relabel rho l H) (writhe_relabel rho l H)).
Qed.
Print Assumptions C18_signs_relabel.

Theorem C18_components_relabel : forall rho l, inj_on rho (edge_labels l) ->
  components (relabel rho l) = option_map (map (relabel_path rho)) (components l).
Proof. exact components_relabel. Qed.
Print Assumptions C18_components_relabel.

Theorem C18_writhe_is_sum : forall l,
  writhe l = option_map (fun sg => (Z.of_nat (count_pos sg) - Z.of_nat (count_neg sg))%Z) (crossing_signs l) /\
  (forall sg, crossing_signs l = Some sg -> length sg = crossing_num l /\
     signed_crossing_nums l = Some (count_pos sg, count_neg sg) /\ count_pos sg + count_neg sg = crossing_num l).
Proof. exact writhe_def. Qed.
Print Assumptions C18_writhe_is_sum.

(* --- braid closure ------------------------------------------------------------------------------- *)
Theorem C18_closure : forall strands w l, closure strands w = Some l ->
  Valid l /\ length l = length w /\ crossing_num l = length w /\ Forall (fun c => ct c = X) l.
Proof. exact closure_valid. Qed.
Print Assumptions C18_closure.

(* a closure is consistently oriented by "all strands run downwards"; the sign of crossing k for this
   orientation is the sign of letter k *)
Theorem C18_closure_oriented : forall strands w l, closure strands w = Some l ->
  Unresolved l /\ Oriented l (braid_o w) /\ signs_of l (braid_o w) = map letter_sign w.
Proof. exact closure_oriented_full. Qed.
Print Assumptions C18_closure_oriented.

(* the sign list: the letters' signs, the crossings whose over-strand lies on a reversed component (rev;
   such a component never passes under) carrying the opposite sign *)
Theorem C18_closure_signs : forall strands w l, closure strands w = Some l ->
  exists rev : nat -> bool,
    (forall e e', thru l e e' -> rev e = rev e') /\
    (forall k, k < length w -> rev (edge_at l (k, 0)) = false) /\
    crossing_signs l =
      Some (map (fun k => if rev (edge_at l (k, 1)) then neg_sign (letter_sign (nth k w 0%Z))
                          else letter_sign (nth k w 0%Z)) (seq 0 (length w))).
Proof. exact closure_signs. Qed.
Print Assumptions C18_closure_signs.

Theorem C18_closure_signs_letters : forall strands w l, closure strands w = Some l ->
  (forall k, k < length w -> exists k', k' < length w /\ conn l (edge_at l (k, 1)) (edge_at l (k', 0))) ->
  crossing_signs l = Some (map letter_sign w).
Proof. exact closure_signs_letters. Qed.
Print Assumptions C18_closure_signs_letters.

(* writhe = exponent sum, for every word whose closure is defined *)
Theorem C18_closure_writhe : forall strands w l, closure strands w = Some l ->
  writhe l = Some (exponent_sum w).
Proof. exact closure_writhe. Qed.
Print Assumptions C18_closure_writhe.

(* number of components = number of cycles of the braid permutation *)
Theorem C18_closure_components : forall strands w l, closure strands w = Some l ->
  exists cs, components l = Some cs /\ length cs = count_cycles (braid_perm strands w).
Proof. exact closure_components. Qed.
Print Assumptions C18_closure_components.

(* --- signs: the orientation clause ------------------------------------------------------------------ *)
Theorem C18_signs_orientation : forall l o, Valid l -> Unresolved l -> Oriented l o ->
  exists o', Oriented l o' /\
    (forall p, InR l p -> (exists i, i < length l /\ conn l (edge_at l p) (edge_at l (i, 0))) -> o' p = o p) /\
    crossing_signs l = Some (signs_of l o').
Proof. exact signs_orientation_agree. Qed.
Print Assumptions C18_signs_orientation.

Theorem C18_signs_orientation_unique : forall l o, Valid l -> Unresolved l -> Oriented l o -> NoOnlyOver l ->
  crossing_signs l = Some (signs_of l o).
Proof. exact signs_orientation_unique. Qed.
Print Assumptions C18_signs_orientation_unique.

Theorem C18_knot_no_only_over : forall l c, Valid l -> components l = Some [c] -> 0 < length l -> NoOnlyOver l.
Proof. exact knot_NoOnlyOver. Qed.
Print Assumptions C18_knot_no_only_over.

(* reordering the crossings *)
Theorem C18_signs_reorder : forall l l' o, Valid l -> Unresolved l -> Oriented l o -> NoOnlyOver l ->
  Permutation l l' ->
  exists sg sg', crossing_signs l = Some sg /\ crossing_signs l' = Some sg' /\ Permutation sg sg' /\
    signed_crossing_nums l' = signed_crossing_nums l /\ writhe l' = writhe l.
Proof. exact signs_reorder. Qed.
Print Assumptions C18_signs_reorder.

(* the hypothesis NoOnlyOver cannot be dropped without planarity *)
Theorem C18_reorder_needs_planarity :
  valid reorder_witness = true /\ Permutation reorder_witness reorder_witness' /\
  writhe reorder_witness = Some 1%Z /\ writhe reorder_witness' = Some (-1)%Z.
Proof. exact reorder_witness_values. Qed.
Print Assumptions C18_reorder_needs_planarity.

(* --- non-vacuity --------------------------------------------------------------------------------- *)
Definition ex_trefoil : link := link_of_code [(1,4,2,5); (3,6,4,1); (5,2,6,3)].
Definition ex_kink : link := link_of_code [(0,0,1,1)].
Definition ex_over : link := link_of_code [(0,2,0,3); (1,3,1,2)].   (* a component that only passes over *)
Example C18_valid_examples : Valid ex_trefoil /\ Valid ex_kink /\ Valid ex_over /\ InR ex_trefoil (2, 3).
Proof.
  repeat split; try (apply valid_spec; vm_compute; reflexivity); cbn; repeat constructor.
Qed.
Example C18_trefoil_values :
  components ex_trefoil = Some [mkP [1; 2; 3; 4; 5; 6] true] /\ writhe ex_trefoil = Some (-3)%Z /\
  option_map (@length path) (match resolved_by ex_trefoil [true; true; true] with Some r => components r | None => None end) = Some 2.
Proof. vm_compute. auto. Qed.
Example C18_closure_examples :
  closure 2 [1; 1; 1]%Z = Some (link_of_code [(0,2,3,1); (2,4,5,3); (4,0,1,5)]) /\
  closure 3 [1; 1]%Z = None /\ closure 2 [2]%Z = None /\ closure 2 [0]%Z = None.
Proof. vm_compute. auto. Qed.

(* the hypotheses of the orientation / reordering theorems are satisfiable: the trefoil as closure of
   sigma_1^3; a closure with a strand that only passes over: the sign list is NOT the letters' signs,
   the writhe is still the exponent sum *)
Definition ex_braid_trefoil : link := link_of_code [(0,2,3,1); (2,4,5,3); (4,0,1,5)].
Example C18_orientation_nonvacuous :
  Valid ex_braid_trefoil /\ Unresolved ex_braid_trefoil /\ Oriented ex_braid_trefoil (braid_o [1; 1; 1]%Z) /\
  NoOnlyOver ex_braid_trefoil /\ crossing_signs ex_braid_trefoil = Some [Pos; Pos; Pos].
Proof.
  assert (H : closure 2 [1; 1; 1]%Z = Some ex_braid_trefoil) by (vm_compute; reflexivity).
  destruct (C18_closure 2 _ _ H) as (Hv & _). destruct (C18_closure_oriented 2 _ _ H) as (Hu & Ho & _).
  split; auto. split; auto. split; auto. split; [|vm_compute; reflexivity].
  apply (knot_NoOnlyOver _ (mkP [0; 3; 4; 1; 2; 5] true)); [exact Hv|vm_compute; reflexivity|cbn; lia].
Qed.
Example C18_only_over_closure :
  exists l, closure 2 [1; -1]%Z = Some l /\ crossing_signs l = Some [Neg; Pos] /\
            map letter_sign [1; -1]%Z = [Pos; Neg] /\ writhe l = Some (exponent_sum [1; -1]%Z).
Proof. eexists. split; [vm_compute; reflexivity|]. vm_compute. auto. Qed.

(* ---- braid group operations beside closure (Braid::inv, MulAssign; Model/BraidOps.v) ---------------------- *)
Require Import Yui.Model.BraidOps Yui.Proofs.C18BraidRows Yui.Proofs.C18BraidGroup.

Theorem C18_braid_inv_word : forall w, braid_inv w = map (fun s => (- s)%Z) (rev w).
Proof. intros w. reflexivity. Qed.
Print Assumptions C18_braid_inv_word.

Theorem C18_braid_inv_laws : forall u v,
  braid_inv (braid_inv u) = u /\ braid_inv (u ++ v) = braid_inv v ++ braid_inv u /\
  length (braid_inv u) = length u /\ exponent_sum (braid_inv u) = (- exponent_sum u)%Z /\
  exponent_sum (u ++ v) = (exponent_sum u + exponent_sum v)%Z.
Proof.
  intros u v. split; [exact (braid_inv_involutive u)|]. split; [exact (braid_inv_app u v)|].
  split; [exact (braid_inv_length u)|]. split; [exact (exponent_sum_inv u)|exact (exponent_sum_app u v)].
Qed.
Print Assumptions C18_braid_inv_laws.

(* the product with the inverse acts trivially on the strands: its closure has as many components as strands
   (C18_closure_components) and writhe 0 (C18_closure_writhe) *)
Theorem C18_braid_inverse_perm : forall n w, Forall (fun s => S (idx s) < n) w ->
  braid_perm n (w ++ braid_inv w) = seq 0 n /\ braid_perm n (braid_inv w ++ w) = seq 0 n /\
  exponent_sum (w ++ braid_inv w) = 0%Z.
Proof.
  intros n w H. split; [exact (braid_perm_mul_inv n w H)|]. split; [exact (braid_perm_inv_mul n w H)|].
  rewrite exponent_sum_app, exponent_sum_inv. apply Z.add_opp_diag_r.
Qed.
Print Assumptions C18_braid_inverse_perm.

Theorem C18_braid_mul : forall s1 w1 s2 w2,
  braid_mul s1 w1 s2 w2 = (if (s1 =? s2)%nat then Some (s1, w1 ++ w2) else None).
Proof. exact braid_mul_spec. Qed.
Print Assumptions C18_braid_mul.

Example C18_braid_inv_example : braid_inv [1; -2; 3]%Z = [-3; 2; -1]%Z /\
  braid_perm 4 ([1; -2; 3] ++ braid_inv [1; -2; 3])%Z = [0; 1; 2; 3].
Proof. split; reflexivity. Qed.
