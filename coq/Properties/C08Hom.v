(* C08 (continued) - "the same homology", the Smith-form corollary of one reduction step.
   Property theorems only; every proof is [exact <lemma>] (or a two-line combination of proved lemmas) and is followed
   by Print Assumptions.

   Vocabulary: [smith_form o m n A r a] (Proofs/C07Algebra.v, pinned in C09_unique_vocabulary): A is equivalent, by
   invertible P, Q, to diag(a_0 .. a_(r-1), 0 ..) with all a_k <> 0 - "r is the rank, a the invariant factors" as read
   off by HomologyCalc (C07) from the SNF (C09); [chain], [associates], [bezout] as in Properties/C09Unique.v;
   [lead1 o r ds] = (1, .., 1 (r times), ds_0, ds_1, ..);  [dget o A] = the entry function of a shaped matrix of
   Model/Reducer.v.

   What is proved here, for EVERY commutative ring with 1 <> 0 (integrality only for the uniqueness part):
     C08_sdr_step_smith  pure algebra: if the maps (f1, b1, f2, b2, h) of a step a1 ~> s satisfy the identities of
                         C08_step and the homotopy factors through R^r (h = e1 g2, g2 a1 e1 = 1_r) then every Smith form
                         (k, ds) of s gives the Smith form (r + k, 1^r ++ ds) of a1;
     C08_step_smith      the step of the model (every matrix, every pair of pivot permutations, every r with a
                         triangular leading block and defined Schur data - the hypotheses of C08_step) is such a step:
                         the reduced differential s = sc_s sc and the original a1 have the same invariant factors up to r
                         leading units, and rank(a1) = r + rank(s);
     C08_step_smith_unique   with C09_unique (Bezout integral domain): EVERY chain Smith form (K, Ds) of a1 has
                         K = r + k and Ds_i ~ 1 (i < r), Ds_(r+i) ~ ds_i - the non-unit invariant factors, i.e. the torsion
                         coefficients reported by C07, coincide before and after the step.

   NOT proved (kept as a comment, see C08_homology_invariants below): the lifting to whole scripts. *)
From Coq Require Import Arith List Bool ZArith Lia Permutation.
Require Import Yui.Base.Ring Yui.Base.MatF Yui.Base.MatL Yui.Model.Reducer.
Require Import Yui.Proofs.C08Mat Yui.Proofs.C08Perm Yui.Proofs.C08Tri Yui.Proofs.C08Step Yui.Proofs.C08All
  Yui.Proofs.C08Run.
Require Import Yui.Proofs.C07Algebra Yui.Proofs.C09UniqueKer Yui.Proofs.C09Unique.
Require Import Yui.Proofs.C08HomF Yui.Proofs.C08Hom.
Import ListNotations.

Theorem C08_lead1_meaning : forall (R : Type) (o : ring_ops R) (r : nat) (ds : nat -> R) (i : nat),
  lead1 o r ds i = if i <? r then rone o else ds (i - r).
Proof. intros. reflexivity. Qed.
Print Assumptions C08_lead1_meaning.

(* ---------- pure algebra: a step whose homotopy factors through R^r ---------- *)
Theorem C08_sdr_step_smith : forall (R : Type) (o : ring_ops R), ring_laws o ->
  forall (r mr nr : nat) (a1 s f1 b1 f2 b2 h e1 g2 : dmat R),
  dr a1 = r + mr -> dc a1 = r + nr -> dwf s -> dr s = mr -> dc s = nr ->
  dr f1 = nr -> dc f1 = r + nr -> dr b1 = r + nr -> dc b1 = nr ->
  dr f2 = mr -> dc f2 = r + mr -> dr b2 = r + mr -> dc b2 = mr ->
  dr e1 = r + nr -> dc e1 = r -> dr g2 = r -> dc g2 = r + mr ->
  dmul o f2 a1 = dmul o s f1 -> dmul o a1 b1 = dmul o b2 s ->                    (* chain maps *)
  dmul o f1 b1 = did o nr -> dmul o f2 b2 = did o mr ->                          (* f b = 1 *)
  dadd o (dmul o b1 f1) (dmul o h a1) = did o (r + nr) ->                        (* b f + h d = 1 *)
  dadd o (dmul o b2 f2) (dmul o a1 h) = did o (r + mr) ->                        (* b f + d h = 1 *)
  dmul o f1 h = dzero o nr (r + mr) -> dmul o h b2 = dzero o (r + nr) mr ->      (* f h = 0, h b = 0 *)
  h = dmul o e1 g2 -> dmul o g2 (dmul o a1 e1) = did o r ->                      (* h factors through R^r *)
  rone o <> rzero o ->
  forall (k : nat) (ds : nat -> R),
  smith_form o mr nr (dget o s) k ds ->
  smith_form o (r + mr) (r + nr) (dget o a1) (r + k) (lead1 o r ds).
Proof. exact @sdr_step_smith. Qed.
Print Assumptions C08_sdr_step_smith.

(* ---------- the step of the model (hypotheses of C08_step) ---------- *)
Theorem C08_step_smith : forall (R : Type) (o : ring_ops R), ring_laws o -> forall u : unit_ops R, unit_laws o u ->
  forall (a1 : dmat R) (vp vq : list nat) (r : nat) (t : ttype) (sc : schur R),
  rone o <> rzero o ->
  dwf a1 -> is_perm (dr a1) vp -> is_perm (dc a1) vq ->
  tri_ok o t (dblock o (permute o a1 vp vq) 0 0 r r) r ->
  schur_of o u t (permute o a1 vp vq) r = Some sc ->
  forall (k : nat) (ds : nat -> R),
  smith_form o (dr a1 - r) (dc a1 - r) (dget o (sc_s sc)) k ds ->
  smith_form o (dr a1) (dc a1) (dget o a1) (r + k) (lead1 o r ds).
Proof. exact @step_smith. Qed.
Print Assumptions C08_step_smith.

Theorem C08_lead1_chain : forall (R : Type) (o : ring_ops R), ring_laws o ->
  forall (r k : nat) (ds : nat -> R), chain o k ds -> chain o (r + k) (lead1 o r ds).
Proof. exact @lead1_chain. Qed.
Print Assumptions C08_lead1_chain.

(* ---------- with the uniqueness of the Smith form (C09_unique): rank and torsion before / after a step ---------- *)
Theorem C08_step_smith_unique : forall (R : Type) (o : ring_ops R), ring_laws o -> integral o -> bezout o ->
  forall u : unit_ops R, unit_laws o u ->
  forall (a1 : dmat R) (vp vq : list nat) (r : nat) (t : ttype) (sc : schur R),
  dwf a1 -> is_perm (dr a1) vp -> is_perm (dc a1) vq ->
  tri_ok o t (dblock o (permute o a1 vp vq) 0 0 r r) r ->
  schur_of o u t (permute o a1 vp vq) r = Some sc ->
  forall (k : nat) (ds : nat -> R) (K : nat) (Ds : nat -> R),
  smith_form o (dr a1 - r) (dc a1 - r) (dget o (sc_s sc)) k ds -> chain o k ds ->     (* after the step *)
  smith_form o (dr a1) (dc a1) (dget o a1) K Ds -> chain o K Ds ->                     (* before the step *)
  K = r + k /\
  (forall i, i < r -> associates o (rone o) (Ds i)) /\
  (forall i, i < k -> associates o (ds i) (Ds (r + i))).
Proof.
  intros R o L Hint Bz u UL a1 vp vq r t sc W Hp Hq Htri Hsc k ds K Ds Fs Cs FA CA.
  pose proof (step_smith o L u UL a1 vp vq r t sc (proj1 Hint) W Hp Hq Htri Hsc k ds Fs) as F1.
  destruct (smith_form_unique o L Hint _ _ _ _ _ _ _ Bz F1 FA (lead1_chain o L r k ds Cs) CA) as [E Has].
  split; [now symmetry|]. split; intros i Hi.
  - specialize (Has i ltac:(lia)). unfold lead1 in Has. destruct (Nat.ltb_spec i r); [exact Has|lia].
  - specialize (Has (r + i) ltac:(lia)). unfold lead1 in Has. destruct (Nat.ltb_spec (r + i) r); [lia|].
    replace (r + i - r) with i in Has by lia. exact Has.
Qed.
Print Assumptions C08_step_smith_unique.

(* The lifted statement, NOT proved (what is missing is said below):

   Theorem C08_homology_invariants : forall R o, ring_laws o -> integral o -> bezout o -> forall u, unit_laws o u ->
     forall M N D V0 (shapes of D) st0 supp ops orc st orc',
     is_input o M N D V0 st0 -> run_script o u supp ops st0 orc = Some (st, orc') -> okf st = true ->
     forall p d_in d_out, mats st p = Some d_in -> mats st (S p) = Some d_out ->
     forall (Smith forms (K_in, Ds_in) of D p, (K_out, Ds_out) of D (S p), (k_in, ds_in) of d_in, (k_out, ds_out) of d_out,
             all chains),
       N (S p) - K_in - K_out = dc d_out - k_in - k_out  /\
       the non-unit entries of Ds_in and of ds_in are associates entry by entry.

   Proved: the effect of ONE step on the reduced matrix itself (C08_step_smith, C08_step_smith_unique: rank(a1) =
   r + rank(s), same non-unit invariant factors).  Missing: (a) the same for the two neighbouring differentials
   (a0 = b1 a0' is equivalent to [0; a0'] by V^-1 = [g2 a1; f1] of C08_sdr_step_smith, so rank(a0) = rank(a0') and the
   dimension drops by r; dually a2), (b) the induction over scripts that accumulates (a) and C08_step_smith along the
   run (the invariant "D_p is equivalent to I_k (+) d_p padded by zero rows / columns, with N_p = n_p + k_(p-1) + k_p").
   The homological content (F, B mutually inverse on homology, over any ring, for every script) is C08_homology. *)

(* ---------- non-vacuity ---------- *)
(* Z satisfies the hypotheses on the ring (Bezout: C09_bezout_rings) *)
Example C08_hom_ex_ring : ring_laws Z_ring /\ integral Z_ring /\ bezout Z_ring /\ unit_laws Z_ring Z_units.
Proof. exact (conj Z_ring_laws (conj Z_integral (conj Z_bezout Z_units_laws))). Qed.

(* a1 = [3 1; 6 4] with the pivot (0,1) (entry 1): the permuted matrix is [1 3; 4 6], r = 1, the Schur complement is
   s = [6 - 4*3] = [-6]; s has the Smith form (1, (-6)), hence a1 has the Smith form (2, (1, -6)) *)
Example C08_hom_ex_step :
  let a1 := mkD 2 2 [[3; 1]; [6; 4]]%Z in
  exists sc, schur_of Z_ring Z_units Lower (permute Z_ring a1 [0; 1] [1; 0]) 1 = Some sc /\
             sc_s sc = mkD 1 1 [[-6]]%Z /\
             dwf a1 /\ is_perm (dr a1) [0; 1] /\ is_perm (dc a1) [1; 0] /\
             tri_ok Z_ring Lower (dblock Z_ring (permute Z_ring a1 [0; 1] [1; 0]) 0 0 1 1) 1 /\
             smith_form Z_ring 1 1 (dget Z_ring (sc_s sc)) 1 (fun _ => (-6)%Z) /\
             smith_form Z_ring 2 2 (dget Z_ring a1) 2 (lead1 Z_ring 1 (fun _ => (-6)%Z)).
Proof.
  intros a1.
  assert (W : dwf a1) by (apply dwfb_dwf; reflexivity).
  assert (Hp : is_perm (dr a1) [0; 1]) by (apply Permutation_refl).
  assert (Hq : is_perm (dc a1) [1; 0]) by (apply perm_swap).
  assert (Ht : tri_ok Z_ring Lower (dblock Z_ring (permute Z_ring a1 [0; 1] [1; 0]) 0 0 1 1) 1)
    by (apply (tri_okb_ok Z_ring Z_ring_laws); reflexivity).
  destruct (schur_of Z_ring Z_units Lower (permute Z_ring a1 [0; 1] [1; 0]) 1) as [sc|] eqn:E; [|discriminate E].
  exists sc.
  assert (Es : sc_s sc = mkD 1 1 [[-6]]%Z).
  { pose proof E as E'. vm_compute in E'. injection E' as <-. reflexivity. }
  assert (Fs : smith_form Z_ring 1 1 (dget Z_ring (sc_s sc)) 1 (fun _ => (-6)%Z)).
  { rewrite Es. exists (mid Z_ring), (mid Z_ring), (mid Z_ring), (mid Z_ring).
    assert (I1 : inv_pair Z_ring 1 (mid Z_ring) (mid Z_ring)).
    { split; intros i j Hi Hj; destruct i; [|lia| |lia]; destruct j; [|lia| |lia]; reflexivity. }
    split; [exact I1|]. split; [exact I1|]. split; [|split].
    - intros i j Hi Hj. destruct i; [|lia]. destruct j; [|lia]. reflexivity.
    - intros i _. discriminate.
    - reflexivity. }
  repeat (split; [first [reflexivity|assumption]|]).
  refine (step_smith Z_ring Z_ring_laws Z_units Z_units_laws a1 [0; 1] [1; 0] 1 Lower sc _ W Hp Hq Ht E 1 _ Fs).
  discriminate.
Qed.
