(* C19 - Involutive Khovanov complex is the mapping cone of 1 + tau and respects symmetry.
   The model (Model/KhI.v) is the definition: the mapping cone of (1 + tau) on the cube-of-resolutions
   complex over F_2, with tau induced by the diagram involution; the library's involutive homology is
   compared with it dimension by dimension.  Proved: for every complex over a commutative ring of
   characteristic 2 and every chain map tau the cone matrix [[d, 0], [1 + tau, d]] squares to zero; the
   oracle answers only on instances where it has checked that tau is defined, involutive and commutes
   with d modulo 2.  Invariance of the involutive s-type invariants is not proved (relations evaluated
   on the built-in table). *)
From Coq Require Import List Bool Arith ZArith.
Require Import Yui.Base.Ring Yui.Base.MatF Yui.Model.KhI Yui.Model.KhHomology Yui.Proofs.KhCone.
Import ListNotations.

Theorem C19_cone : forall (R : Type) (o : ring_ops R), ring_laws o ->
  radd o (rone o) (rone o) = rzero o ->
  forall (n : nat) (d tau : mat R),
  meq n n (mmul o n d d) (mzero o) ->
  meq n n (mmul o n tau d) (mmul o n d tau) ->
  meq (n + n) (n + n) (mmul o (n + n) (cone o n d tau) (cone o n d tau)) (mzero o).
Proof. exact @cone_squares_to_zero. Qed.
Print Assumptions C19_cone.

Theorem C19_oracle_checks : forall ic ds,
  khi_dims ic = Some ds ->
  cube_ok (ic_cube ic) = true /\ tau_defined ic = true /\ tau_involutive ic = true /\ tau_chain_map ic = true.
Proof. exact khi_dims_checked. Qed.
Print Assumptions C19_oracle_checks.

(* non-vacuity: F_2 is a ring of characteristic 2; the oracle answers on the strongly invertible trefoil *)
Example C19_F2 : ring_laws F2_ring /\ radd F2_ring (rone F2_ring) (rone F2_ring) = rzero F2_ring.
Proof. split; [exact F2_ring_laws|exact F2_char2]. Qed.
Example C19_trefoil :
  option_map (fun ic => khi_dims ic)
    (build_icube [(KhCube.CX, (1, 5, 2, 4)); (KhCube.CX, (3, 1, 4, 6)); (KhCube.CX, (5, 3, 6, 2))]%nat None 0)
  = Some (Some [(0%nat, 2%Z); (1%nat, 2%Z); (2%nat, 2%Z); (3%nat, 4%Z); (4%nat, 2%Z)]).
Proof. vm_compute. reflexivity. Qed.
