(* C15 - Euclidean-domain operations: exact division, gcd, Bezout, units, rounding.
   Property theorems only; every proof is [exact <lemma>] and is followed by Print Assumptions.

   Model: Model/Euclid.v (mirror of yui/src/abst/euc_ring.rs, abst/ring.rs, misc/int_ext.rs, types/qint.rs,
   types/ratio.rs, types/ff.rs as they are in /repo now, i.e. after the fixes dfe26dc (exact div_round) and
   7ae8b6a (normalised gcd/gcdx)), Model/EuclidPoly.v (poly.rs, h_poly.rs).  Ring elements are unbounded
   integers Z (BigInt is the exact instance; i32/i64/i128 are the width-checked mirrors [w_div], [w_gcd], ...); a Rust panic
   (division by zero, overflow, assert!) is [None]; the Euclid loops run on explicit fuel.

   A Euclidean type is an [euc_dict R]: ring operations, the partial operators [d_div] = `/`, [d_rem] = `%`,
   [d_is_unit], [d_inv], [d_nunit] = normalizing_unit.  The generic code of euc_ring.rs / ring.rs is
   [divides], [gcd], [gcdx], [lcm], [normalized] (Model/Euclid.v, section Generic).
   [euc_dict_laws D Phi] (Proofs/C15Gcd.v): D is a commutative integral domain with the unit laws of
   Base/Ring.v and division with remainder  a = q b + r  with  2 Phi(r) <= Phi(b)  for a potential
   Phi >= 0 that vanishes only at 0 and is monotone under multiplication; instances proved here:
   Z[i] (Phi = norm), Z[omega] (Phi = norm^3), every field (Phi = 0/1).
   [dvd D a b] := exists c, b = c * a;   [assoc D a b] := exists v, unit v /\ b = a * v;
   [good_fuel Phi fuel y] := fuel = S f with Phi y < 2^f  (every fuel >= fuel_of (Phi y) is good).

   Polynomials: K[x] = Poly<_, K> is the set of normal-form coefficient lists ([p_norm F f = f]) over any
   field dictionary [field_dict o inv] with [field_laws]; on the subset type of normal forms the dictionary
   [poly_dict] satisfies [euc_dict_laws] (Proofs/C15PolyRing.v), and the generic theorems are transported to
   the model's functions on plain lists (theorems C15_poly_...).  HPoly over any field is treated directly (theorems C15_hpoly_...).

   What is NOT a theorem here (exact correspondence only, see MANIFEST): the instance Q = Ratio<_> beyond
   "an abstract field" - its ring operations on canonical pairs are modelled by their results, and that they
   satisfy [field_laws] is property C14's subject (C14_ratio_exact), not proved in this development's terms. *)
From Coq Require Import ZArith List Bool Znumtheory.
Require Import Yui.Base.Ring Yui.Model.Euclid Yui.Model.EuclidPoly.
Require Import Yui.Proofs.C15Gcd Yui.Proofs.C15Int Yui.Proofs.C15Quad Yui.Proofs.C15Field Yui.Proofs.C15Machine.
Require Import Yui.Proofs.C15Main Yui.Proofs.C15HPoly Yui.Proofs.C15Poly Yui.Proofs.C15PolyRing.
Import ListNotations.
Local Open Scope Z_scope.

(* ================================ nearest-integer division ================================ *)
(* for ALL integers a, b <> 0 of any size: the returned q is an integer nearest to a/b, ties go away
   from zero, and q is the only integer with these two properties *)
Theorem C15_div_round : forall a b : Z, b <> 0 ->
  exists q, int_div_round a b = Some q /\
    2 * Z.abs (a - q * b) <= Z.abs b /\
    (2 * Z.abs (a - q * b) = Z.abs b -> Z.abs a < Z.abs (q * b)) /\
    (forall q', 2 * Z.abs (a - q' * b) <= Z.abs b ->
                (2 * Z.abs (a - q' * b) = Z.abs b -> Z.abs a < Z.abs (q' * b)) -> q' = q).
Proof. exact div_round_main. Qed.
Print Assumptions C15_div_round.

Theorem C15_div_by_zero : forall a : Z,
  int_div a 0 = None /\ int_rem a 0 = None /\ int_div_round a 0 = None.
Proof. exact int_division_by_zero. Qed.
Print Assumptions C15_div_by_zero.

(* machine widths (k = 32, 64, 128): BigInt is the unbounded function; at a finite width a returned value
   is the unbounded result and is representable (no silent wrap), and the call does not panic unless the
   quotient itself is unrepresentable (MIN / -1) - in particular no intermediate value overflows *)
Theorem C15_div_round_machine : forall k a b : Z,
  w_div_round None a b = int_div_round a b /\
  (forall v, w_div_round (Some k) a b = Some v -> int_div_round a b = Some v /\ - 2 ^ (k - 1) <= v < 2 ^ (k - 1)) /\
  (1 < k -> fits k a = true -> fits k b = true -> b <> 0 -> ~ (a = - 2 ^ (k - 1) /\ b = -1) ->
     exists q, w_div_round (Some k) a b = Some q).
Proof. exact machine_div_round. Qed.
Print Assumptions C15_div_round_machine.

(* ================================ division with remainder ================================ *)
(* Z: truncated division *)
Theorem C15_division_Z : forall a b : Z, b <> 0 ->
  exists q r, int_div a b = Some q /\ int_rem a b = Some r /\
    a = q * b + r /\ Z.abs r < Z.abs b /\ (0 <= a -> 0 <= r) /\ (a <= 0 -> r <= 0).
Proof. exact int_division. Qed.
Print Assumptions C15_division_Z.

(* Z[i]: a = q b + r with N(r) <= N(b)/2, in particular r = 0 or N(r) < N(b) *)
Theorem C15_division_gauss : forall u v : qint, v <> q_zero ->
  exists q r, g_div u v = Some q /\ g_rem u v = Some r /\ u = q_add (g_mul q v) r /\
              2 * g_norm r <= g_norm v /\ (r = q_zero \/ g_norm r < g_norm v).
Proof. exact gauss_division. Qed.
Print Assumptions C15_division_gauss.

(* Z[omega]: N(r) <= 3 N(b) / 4 *)
Theorem C15_division_eisen : forall u v : qint, v <> q_zero ->
  exists q r, e_div u v = Some q /\ e_rem u v = Some r /\ u = q_add (e_mul q v) r /\
              4 * e_norm r <= 3 * e_norm v /\ (r = q_zero \/ e_norm r < e_norm v).
Proof. exact eisen_division. Qed.
Print Assumptions C15_division_eisen.

(* exact multiples are divided exactly; division by zero panics *)
Theorem C15_division_quad_exact : forall c v : qint, v <> q_zero ->
  (g_div (g_mul c v) v = Some c /\ g_rem (g_mul c v) v = Some q_zero) /\
  (e_div (e_mul c v) v = Some c /\ e_rem (e_mul c v) v = Some q_zero).
Proof. exact (fun c v H => conj (gauss_div_exact c v H) (eisen_div_exact c v H)). Qed.
Print Assumptions C15_division_quad_exact.

Theorem C15_division_quad_by_zero : forall u : qint,
  (g_div u q_zero = None /\ g_rem u q_zero = None) /\ (e_div u q_zero = None /\ e_rem u q_zero = None).
Proof. exact (fun u => conj (g_div_zero u) (e_div_zero u)). Qed.
Print Assumptions C15_division_quad_by_zero.

(* every field: a = (a/b) b and a % b = 0 *)
Theorem C15_division_field : forall (K : Type) (o : ring_ops K) (inv : K -> option K), field_laws o inv ->
  forall a b : K, b <> rzero o ->
  exists q, f_div o inv a b = Some q /\ f_rem o a b = Some (rzero o) /\
            a = radd o (rmul o q b) (rzero o) /\ a = rmul o q b.
Proof. exact @field_div_rem. Qed.
Print Assumptions C15_division_field.

(* F_p of the model (representatives 0 <= a < p inside Z), p prime *)
Theorem C15_division_Fp : forall p : Z, prime p -> forall a b : Z, ff_rep p a -> ff_rep p b -> b <> 0 ->
  exists q, d_div (ff_dict p) a b = Some q /\ d_rem (ff_dict p) a b = Some 0 /\ ff_rep p q /\
            a = ff_add p (ff_mul p q b) 0.
Proof. exact ff_division. Qed.
Print Assumptions C15_division_Fp.

(* ================================ the instances satisfy the laws ================================ *)
Theorem C15_laws_gauss : euc_dict_laws gauss_dict g_norm.
Proof. exact gauss_laws. Qed.
Print Assumptions C15_laws_gauss.

Theorem C15_laws_eisen : euc_dict_laws eisen_dict (fun u => e_norm u ^ 3).
Proof. exact eisen_laws. Qed.
Print Assumptions C15_laws_eisen.

Theorem C15_laws_field : forall (K : Type) (o : ring_ops K) (inv : K -> option K), field_laws o inv ->
  euc_dict_laws (field_dict o inv) (field_phi o).
Proof. exact @field_euc_laws. Qed.
Print Assumptions C15_laws_field.

(* the field dictionaries of the model have exactly this shape (Q on canonical pairs) *)
Theorem C15_field_dicts :
  (forall p, ff_dict p = field_dict (ff_ring p) (ff_inv p)) /\
  d_ring ratio_dict = ratio_ring /\ d_div ratio_dict = f_div ratio_ring r_inv /\
  d_rem ratio_dict = f_rem ratio_ring /\ d_is_unit ratio_dict = f_is_unit ratio_ring /\ d_inv ratio_dict = r_inv /\
  forall x : ratio, (fst x = 0 -> snd x = 1) -> d_nunit ratio_dict x = field_nunit ratio_ring r_inv x.
Proof. exact (conj ff_dict_shape ratio_dict_shape). Qed.
Print Assumptions C15_field_dicts.

(* ================================ gcd, gcdx ================================ *)
(* for every Euclidean type with laws and all x, y: with any good fuel the generic gcd / gcdx of
   euc_ring.rs terminate (never [None]); d divides both, every common divisor divides d,
   s x + t y = d for the returned s, t; d is normalised (normalizing_unit d = 1); d = 0 iff x = y = 0;
   and gcd y x returns the same d *)
Theorem C15_gcd : forall (R : Type) (D : euc_dict R) (Phi : R -> Z), euc_dict_laws D Phi ->
  forall (fuel fuel' : nat) (x y : R), good_fuel Phi fuel y -> good_fuel Phi fuel' x ->
  exists d s t,
    gcd D fuel x y = Some d /\ gcdx D fuel x y = Some (d, s, t) /\
    dvd D d x /\ dvd D d y /\ (forall c, dvd D c x -> dvd D c y -> dvd D c d) /\
    radd (d_ring D) (rmul (d_ring D) s x) (rmul (d_ring D) t y) = d /\
    d_nunit D d = rone (d_ring D) /\
    (d = rzero (d_ring D) <-> x = rzero (d_ring D) /\ y = rzero (d_ring D)) /\
    gcd D fuel' y x = Some d.
Proof. exact @gcd_main. Qed.
Print Assumptions C15_gcd.

(* the fuel the model computes, and every larger one, is good *)
Theorem C15_gcd_fuel : forall (R : Type) (D : euc_dict R) (Phi : R -> Z), euc_dict_laws D Phi ->
  forall y : R, good_fuel Phi (fuel_of (Phi y)) y /\
                forall fuel, (fuel_of (Phi y) <= fuel)%nat -> good_fuel Phi fuel y.
Proof. exact @fuel_main. Qed.
Print Assumptions C15_gcd_fuel.

(* spelled out for Z[i] and Z[omega] with the model's own entry points (fuel included) *)
Theorem C15_gcd_gauss : forall x y : qint,
  exists d s t,
    g_gcd x y = Some d /\ g_gcdx x y = Some (d, s, t) /\
    (exists c, x = g_mul c d) /\ (exists c, y = g_mul c d) /\
    (forall c, (exists c', x = g_mul c' c) -> (exists c', y = g_mul c' c) -> exists c', d = g_mul c' c) /\
    q_add (g_mul s x) (g_mul t y) = d /\
    g_nunit d = q_one /\ (d = q_zero <-> x = q_zero /\ y = q_zero) /\
    g_gcd y x = Some d.
Proof. exact gauss_gcd_main. Qed.
Print Assumptions C15_gcd_gauss.

Theorem C15_gcd_eisen : forall x y : qint,
  exists d s t,
    e_gcd x y = Some d /\ e_gcdx x y = Some (d, s, t) /\
    (exists c, x = e_mul c d) /\ (exists c, y = e_mul c d) /\
    (forall c, (exists c', x = e_mul c' c) -> (exists c', y = e_mul c' c) -> exists c', d = e_mul c' c) /\
    q_add (e_mul s x) (e_mul t y) = d /\
    e_nunit d = q_one /\ (d = q_zero <-> x = q_zero /\ y = q_zero) /\
    e_gcd y x = Some d.
Proof. exact eisen_gcd_main. Qed.
Print Assumptions C15_gcd_eisen.

(* normalised = first quadrant (Z[i]) / first sextant (Z[omega]), the half-line b = 0 included *)
Theorem C15_normal_form_quad : forall a b : Z,
  (g_nunit (a, b) = q_one <-> (a = 0 /\ b = 0) \/ (0 < a /\ 0 <= b)) /\
  (e_nunit (a, b) = q_one <-> (a = 0 /\ b = 0) \/ (0 < a /\ 0 <= b)).
Proof. exact (fun a b => conj (gauss_normal_form a b) (eisen_normal_form a b)). Qed.
Print Assumptions C15_normal_form_quad.

(* integers: EucRing for i32/i64/i128/BigInt overrides gcd, gcdx, lcm with num-integer's functions; gcd and
   lcm are modelled by their results (Z.gcd, Z.lcm), extended_gcd is mirrored as its loop: it terminates on
   the computed fuel and returns the non-negative gcd with Bezout coefficients *)
Theorem C15_gcd_int : forall a b : Z,
  exists s t,
    int_gcdx a b = Some (int_gcd a b, s, t) /\
    (int_gcd a b | a) /\ (int_gcd a b | b) /\ (forall c, (c | a) -> (c | b) -> (c | int_gcd a b)) /\
    s * a + t * b = int_gcd a b /\
    0 <= int_gcd a b /\ int_nunit (int_gcd a b) = 1 /\
    (int_gcd a b = 0 <-> a = 0 /\ b = 0) /\
    int_gcd b a = int_gcd a b /\
    int_lcm a b * int_gcd a b = Z.abs (a * b) /\ 0 <= int_lcm a b.
Proof. exact int_gcd_main. Qed.
Print Assumptions C15_gcd_int.

(* F_p: gcd = 1 unless both arguments vanish, for every fuel; Bezout *)
Theorem C15_gcd_Fp : forall p : Z, prime p -> forall (fuel : nat) (a b : Z), ff_rep p a -> ff_rep p b ->
  exists d s t, gcdx (ff_dict p) fuel a b = Some (d, s, t) /\ gcd (ff_dict p) fuel a b = Some d /\
                d = (if (a =? 0) && (b =? 0) then 0 else 1) /\
                ff_rep p s /\ ff_rep p t /\ ff_add p (ff_mul p s a) (ff_mul p t b) = d.
Proof. exact ff_gcdx_main. Qed.
Print Assumptions C15_gcd_Fp.

(* divides: x | y as the code computes it *)
Theorem C15_divides : forall (R : Type) (D : euc_dict R) (Phi : R -> Z), euc_dict_laws D Phi ->
  forall x y : R, exists b, divides D x y = Some b /\ (b = true <-> x <> rzero (d_ring D) /\ dvd D x y).
Proof. exact @divides_main. Qed.
Print Assumptions C15_divides.

(* ================================ lcm ================================ *)
(* lcm * gcd is an associate of x * y (x, y not both zero), and lcm is normalised; lcm(0,0) panics in the
   generic code (division by the zero gcd) - the integer override returns 0 *)
Theorem C15_lcm : forall (R : Type) (D : euc_dict R) (Phi : R -> Z), euc_dict_laws D Phi ->
  forall (fuel : nat) (x y : R), good_fuel Phi fuel y ->
  (x = rzero (d_ring D) /\ y = rzero (d_ring D) -> lcm D fuel x y = None) /\
  (~ (x = rzero (d_ring D) /\ y = rzero (d_ring D)) ->
     exists m g, lcm D fuel x y = Some m /\ gcd D fuel x y = Some g /\
                 assoc D (rmul (d_ring D) x y) (rmul (d_ring D) m g) /\ d_nunit D m = rone (d_ring D)).
Proof. exact @lcm_main. Qed.
Print Assumptions C15_lcm.

Theorem C15_lcm_quad : forall x y : qint, ~ (x = q_zero /\ y = q_zero) ->
  (exists m g, g_lcm x y = Some m /\ g_gcd x y = Some g /\
     (exists v, g_is_unit v = true /\ g_mul m g = g_mul (g_mul x y) v) /\ g_nunit m = q_one) /\
  (exists m g, e_lcm x y = Some m /\ e_gcd x y = Some g /\
     (exists v, e_is_unit v = true /\ e_mul m g = e_mul (e_mul x y) v) /\ e_nunit m = q_one).
Proof. exact (fun x y H => conj (gauss_lcm_main x y H) (eisen_lcm_main x y H)). Qed.
Print Assumptions C15_lcm_quad.

Theorem C15_lcm_Fp : forall p : Z, prime p -> forall (fuel : nat) (a b : Z), ff_rep p a -> ff_rep p b ->
  ~ (a = 0 /\ b = 0) -> lcm (ff_dict p) fuel a b = Some (if (a =? 0) || (b =? 0) then 0 else 1).
Proof. exact ff_lcm_main. Qed.
Print Assumptions C15_lcm_Fp.

(* ================================ units and normalisation ================================ *)
(* is_unit a <-> inv a returns something; a * inv a = 1; an element with an inverse reports itself a unit;
   normalizing_unit is a unit; normalized a = a * normalizing_unit a is fixed by normalisation
   (idempotent) and is constant on associates *)
Theorem C15_units : forall (R : Type) (D : euc_dict R) (Phi : R -> Z), euc_dict_laws D Phi ->
  (forall a, d_is_unit D a = true <-> exists b, d_inv D a = Some b) /\
  (forall a b, d_inv D a = Some b -> rmul (d_ring D) a b = rone (d_ring D)) /\
  (forall a b, rmul (d_ring D) a b = rone (d_ring D) -> d_is_unit D a = true) /\
  (forall a, d_is_unit D (d_nunit D a) = true) /\
  (forall a, normalized D a = rmul (d_ring D) a (d_nunit D a)) /\
  (forall a, d_nunit D (normalized D a) = rone (d_ring D)) /\
  (forall a, normalized D (normalized D a) = normalized D a) /\
  (forall a v, d_is_unit D v = true -> normalized D (rmul (d_ring D) a v) = normalized D a).
Proof. exact @units_main. Qed.
Print Assumptions C15_units.

(* integers (the generic division of Z is truncated, so Z is not an instance of the halving law; its unit
   structure is proved directly): units are +-1, normalized = |.| *)
Theorem C15_units_int :
  unit_laws Z_ring (dict_units int_dict) /\
  (forall a, int_is_unit a = true <-> a = 1 \/ a = -1) /\
  (forall a, normalized int_dict a = Z.abs a).
Proof. exact (conj int_unit_laws (conj int_is_unit_spec int_normalized_abs)). Qed.
Print Assumptions C15_units_int.

Theorem C15_units_quad :
  (forall u, g_is_unit u = true <-> u = (1, 0) \/ u = (-1, 0) \/ u = (0, 1) \/ u = (0, -1)) /\
  (forall u, e_is_unit u = true <->
     u = (1, 0) \/ u = (0, 1) \/ u = (-1, 1) \/ u = (-1, 0) \/ u = (0, -1) \/ u = (1, -1)).
Proof. exact (conj g_unit_cases e_unit_cases). Qed.
Print Assumptions C15_units_quad.

Theorem C15_units_Fp : forall p : Z, prime p -> forall a : Z, ff_rep p a ->
  (d_is_unit (ff_dict p) a = true <-> a <> 0) /\
  (d_is_unit (ff_dict p) a = true <-> exists i, d_inv (ff_dict p) a = Some i) /\
  (forall i, d_inv (ff_dict p) a = Some i -> ff_rep p i /\ ff_mul p a i = 1) /\
  normalized (ff_dict p) a = (if a =? 0 then 0 else 1).
Proof. exact ff_units_main. Qed.
Print Assumptions C15_units_Fp.

(* ================================ machine integers ================================ *)
(* i32 / i64 / i128 (k = 32, 64, 128): whenever a width-checked operation returns, the value is the result
   of the unbounded operation (never a wrapped one); without a width (BigInt) the two coincide *)
Theorem C15_machine_sound : forall k a b : Z,
  (forall v, w_div (Some k) a b = Some v -> int_div a b = Some v) /\
  (forall v, w_rem (Some k) a b = Some v -> int_rem a b = Some v) /\
  (forall v, w_divides (Some k) a b = Some v -> divides int_dict a b = Some v) /\
  (forall v, w_gcd (Some k) a b = Some v -> v = int_gcd a b) /\
  (forall v, w_lcm (Some k) a b = Some v -> v = int_lcm a b) /\
  (forall v, w_gcdx (Some k) a b = Some v -> int_gcdx a b = Some v) /\
  (forall v, w_is_unit (Some k) a = Some v -> v = int_is_unit a) /\
  (forall v, w_inv (Some k) a = Some v -> v = int_inv a) /\
  (forall v, w_normalized (Some k) a = Some v -> v = normalized int_dict a).
Proof. exact machine_sound. Qed.
Print Assumptions C15_machine_sound.

Theorem C15_machine_bigint : forall a b : Z,
  w_div None a b = int_div a b /\ w_rem None a b = int_rem a b /\
  w_divides None a b = divides int_dict a b /\
  w_gcd None a b = Some (int_gcd a b) /\ w_lcm None a b = Some (int_lcm a b) /\ w_gcdx None a b = int_gcdx a b /\
  w_is_unit None a = Some (int_is_unit a) /\ w_inv None a = Some (int_inv a) /\
  w_normalized None a = Some (normalized int_dict a).
Proof. exact machine_big. Qed.
Print Assumptions C15_machine_bigint.

(* ================================ homogeneous polynomials c x^d over a field ================================ *)
(* HPoly<_, K> = (degree, coefficient) with K any field ([field_dict o inv] with [field_laws]).  Equality of
   values is [h_eqb] (PartialEq of h_poly.rs: two zeros are equal whatever their stored degree); the sums
   and products below are HPoly's own + and *.  The generic gcd / gcdx return on an early path for every
   pair (of two non-zero monomials one divides the other), so the result does not depend on the fuel and
   the degree assertion of HPoly's `+` is never reached from them. *)
Theorem C15_hpoly_division : forall (K : Type) (o : ring_ops K) (inv : K -> option K), field_laws o inv ->
  forall f g : @hpoly K,
  let F := field_dict o inv in let H := hpoly_dict F in
  (h_is_zero F g = false ->
     exists q r, d_div H f g = Some q /\ d_rem H f g = Some r /\
       h_eqb F (h_add F (h_mul F q g) r) f = true /\
       (h_is_zero F r = true \/ (fst r < fst g)%nat)) /\
  (h_is_zero F g = true -> d_div H f g = None /\ d_rem H f g = None).
Proof. exact @hpoly_division_main. Qed.
Print Assumptions C15_hpoly_division.

(* gcd(c x^d, c' x^d') = x^min(d, d') with coefficient 1 (normalised), the same for both argument orders;
   it divides both, and s f + t g = d for the returned s, t *)
Theorem C15_hpoly_gcd : forall (K : Type) (o : ring_ops K) (inv : K -> option K), field_laws o inv ->
  forall (fuel fuel' : nat) (f g : @hpoly K),
  let F := field_dict o inv in let H := hpoly_dict F in
  exists d s t,
    gcd H fuel f g = Some d /\ gcdx H fuel f g = Some (d, s, t) /\
    d = (if h_is_zero F f then (if h_is_zero F g then h_zero F else (fst g, rone o))
         else if h_is_zero F g then (fst f, rone o) else (Nat.min (fst f) (fst g), rone o)) /\
    (exists c, h_eqb F (h_mul F c d) f = true) /\ (exists c, h_eqb F (h_mul F c d) g = true) /\
    h_eqb F (h_add F (h_mul F s f) (h_mul F t g)) d = true /\
    d_nunit H d = h_one F /\
    gcd H fuel' g f = Some d.
Proof. exact @hpoly_gcd_main. Qed.
Print Assumptions C15_hpoly_gcd.

Theorem C15_hpoly_lcm : forall (K : Type) (o : ring_ops K) (inv : K -> option K), field_laws o inv ->
  forall (fuel : nat) (f g : @hpoly K),
  let F := field_dict o inv in
  h_is_zero F f = false -> h_is_zero F g = false ->
  lcm (hpoly_dict F) fuel f g = Some (Nat.max (fst f) (fst g), rone o).
Proof. exact @hpoly_lcm_main. Qed.
Print Assumptions C15_hpoly_lcm.

Theorem C15_hpoly_units : forall (K : Type) (o : ring_ops K) (inv : K -> option K), field_laws o inv ->
  let F := field_dict o inv in let H := hpoly_dict F in
  (forall f : @hpoly K, d_is_unit H f = true <-> fst f = O /\ snd f <> rzero o) /\
  (forall f : @hpoly K, d_is_unit H f = true <-> exists i, d_inv H f = Some i) /\
  (forall f i : @hpoly K, d_inv H f = Some i -> h_mul F f i = h_one F) /\
  (forall f : @hpoly K, h_is_zero F f = false -> normalized H f = (fst f, rone o)) /\
  (forall f : @hpoly K, h_is_zero F f = true -> normalized H f = f) /\
  (forall f : @hpoly K, d_nunit H (normalized H f) = h_one F) /\
  (forall f : @hpoly K, normalized H (normalized H f) = normalized H f) /\
  (forall f v : @hpoly K, d_is_unit H v = true -> normalized H (h_mul F f v) = normalized H f).
Proof. exact @hpoly_units_main. Qed.
Print Assumptions C15_hpoly_units.

(* ================================ univariate polynomials over a field ================================ *)
(* Poly<_, K> = coefficient list, lowest degree first, in normal form [p_norm F f = f] (no trailing zero; the
   Rust value is a map degree -> non-zero coefficient).  The long-division loop of poly.rs returns (q, r),
   both normal, with f = q g + r - computed with the model's own + and * - and r = 0 or deg r < deg g; it
   panics exactly when g = 0. *)
Theorem C15_poly_division : forall (K : Type) (o : ring_ops K) (inv : K -> option K), field_laws o inv ->
  forall f g : list K,
  let F := field_dict o inv in
  p_norm F f = f -> p_norm F g = g ->
  (g <> [] ->
     exists q r, d_div (poly_dict F) f g = Some q /\ d_rem (poly_dict F) f g = Some r /\
       p_div_rem F f g = Some (q, r) /\ p_norm F q = q /\ p_norm F r = r /\
       f = p_add F (p_mul F q g) r /\ (r = [] \/ (length r < length g)%nat)) /\
  (g = [] -> d_div (poly_dict F) f g = None /\ d_rem (poly_dict F) f g = None).
Proof. exact @poly_division_main. Qed.
Print Assumptions C15_poly_division.

(* gcd / gcdx over K[x]: terminate on the model's fuel, d is normal, divides f and g, every common divisor
   divides d, s f + t g = d, d is monic or 0 (normalizing_unit d = 1), d = 0 iff f = g = 0, symmetric *)
Theorem C15_poly_gcd : forall (K : Type) (o : ring_ops K) (inv : K -> option K), field_laws o inv ->
  forall f g : list K,
  let F := field_dict o inv in
  p_norm F f = f -> p_norm F g = g ->
  exists d s t,
    p_gcd F f g = Some d /\ p_gcdx F f g = Some (d, s, t) /\
    p_norm F d = d /\ p_norm F s = s /\ p_norm F t = t /\
    (exists c, p_norm F c = c /\ f = p_mul F c d) /\ (exists c, p_norm F c = c /\ g = p_mul F c d) /\
    (forall c, p_norm F c = c -> (exists c1, f = p_mul F c1 c) -> (exists c2, g = p_mul F c2 c) ->
               exists c', p_norm F c' = c' /\ d = p_mul F c' c) /\
    p_add F (p_mul F s f) (p_mul F t g) = d /\
    p_nunit F d = p_one F /\
    (d = [] <-> f = [] /\ g = []) /\
    p_gcd F g f = Some d.
Proof. exact @poly_gcd_main. Qed.
Print Assumptions C15_poly_gcd.

Theorem C15_poly_lcm : forall (K : Type) (o : ring_ops K) (inv : K -> option K), field_laws o inv ->
  forall f g : list K,
  let F := field_dict o inv in
  p_norm F f = f -> p_norm F g = g ->
  (f = [] /\ g = [] -> p_lcm F f g = None) /\
  (~ (f = [] /\ g = []) ->
     exists m d, p_lcm F f g = Some m /\ p_gcd F f g = Some d /\ p_norm F m = m /\
       (exists v, p_norm F v = v /\ p_is_unit F v = true /\ p_mul F m d = p_mul F (p_mul F f g) v) /\
       p_nunit F m = p_one F).
Proof. exact @poly_lcm_main. Qed.
Print Assumptions C15_poly_lcm.

Theorem C15_poly_units : forall (K : Type) (o : ring_ops K) (inv : K -> option K), field_laws o inv ->
  let F := field_dict o inv in let P := poly_dict F in
  (forall f, p_norm F f = f -> (p_is_unit F f = true <-> exists g, p_inv F f = Some g)) /\
  (forall f g, p_inv F f = Some g -> p_norm F g = g /\ p_mul F f g = p_one F) /\
  (forall f g, p_norm F f = f -> p_norm F g = g -> p_mul F f g = p_one F -> p_is_unit F f = true) /\
  (forall f, p_is_unit F (p_nunit F f) = true /\ p_norm F (p_nunit F f) = p_nunit F f) /\
  (forall f, p_norm F f = f -> normalized P f = p_mul F f (p_nunit F f)) /\
  (forall f, p_norm F f = f -> p_nunit F (normalized P f) = p_one F) /\
  (forall f, p_norm F f = f -> normalized P (normalized P f) = normalized P f) /\
  (forall f v, p_norm F f = f -> p_norm F v = v -> p_is_unit F v = true ->
               normalized P (p_mul F f v) = normalized P f).
Proof. exact @poly_units_main. Qed.
Print Assumptions C15_poly_units.

Theorem C15_poly_divides : forall (K : Type) (o : ring_ops K) (inv : K -> option K), field_laws o inv ->
  forall f g : list K,
  let F := field_dict o inv in
  p_norm F f = f -> p_norm F g = g ->
  exists b, divides (poly_dict F) f g = Some b /\
            (b = true <-> f <> [] /\ exists c, p_norm F c = c /\ g = p_mul F c f).
Proof. exact @poly_divides_main. Qed.
Print Assumptions C15_poly_divides.

(* the normal forms with these operations are a Euclidean domain in the sense of [euc_dict_laws] *)
Theorem C15_laws_poly : forall (K : Type) (o : ring_ops K) (inv : K -> option K) (FL : field_laws o inv),
  euc_dict_laws (NPD o inv FL) (np_phi o inv) /\ dict_morph (NPD o inv FL) (poly_dict (field_dict o inv)) (val o inv).
Proof. exact (fun K o inv FL => conj (np_laws o inv FL) (np_morph o inv FL)). Qed.
Print Assumptions C15_laws_poly.

(* ================================ non-vacuity ================================ *)
(* the witnesses of the two defects fixed in /repo, on the model *)
Example C15_ex_div_round :
  int_div_round (2 ^ 53 + 1) 1 = Some (2 ^ 53 + 1) /\
  int_div_round (3 * (10 ^ 40 + 1)) 3 = Some (10 ^ 40 + 1) /\
  int_div_round 7 2 = Some 4 /\ int_div_round (-7) 2 = Some (-4) /\ int_div_round 7 (-2) = Some (-4) /\
  int_div_round (-13) 5 = Some (-3) /\ int_div_round 12 5 = Some 2 /\
  w_div_round (Some 64) (- 2 ^ 63) (-1) = None /\ w_div_round (Some 64) (- 2 ^ 63) 3 = Some (-3074457345618258603).
Proof. repeat split; vm_compute; reflexivity. Qed.

Example C15_ex_gcd :
  g_gcd (0, 2) (4, 0) = Some (2, 0) /\ g_gcd (4, 0) (0, 2) = Some (2, 0) /\
  g_gcdx (0, 2) (4, 0) = Some ((2, 0), (0, -1), (0, 0)) /\
  g_gcdx (11, 3) (1, 8) = Some ((2, 1), (1, 2), (-3, 0)) /\
  e_gcd (5, 3) (2, -4) = Some (1, 0) /\
  e_gcdx (4, 2) (0, 6) = Some ((2, 0), (0, -1), (1, 0)) /\
  g_div (49, -58) (7, 9) = Some (-1, -7) /\ g_rem (49, -58) (7, 9) = Some (-7, 0) /\
  g_lcm (2, 0) (0, 3) = Some (6, 0) /\ g_lcm (0, 0) (0, 0) = None /\
  int_gcdx 240 46 = Some (2, -9, 47).
Proof. repeat split; vm_compute; reflexivity. Qed.

(* hypotheses are satisfiable: 7 is prime, F_7 computes *)
Example C15_ex_Fp : prime 7 /\ gcd (ff_dict 7) 3 3 5 = Some 1 /\ d_div (ff_dict 7) 3 5 = Some 2 /\
  gcdx (ff_dict 7) 3 0 5 = Some (1, 0, 3).
Proof. split; [exact prime_7|repeat split; vm_compute; reflexivity]. Qed.

(* Q with a hand-made field structure would need the ring laws of canonical pairs (property C14); the
   abstract-field theorems are instantiated here by the two-element field, to show [field_laws] is inhabited *)
Example C15_ex_field_laws : field_laws (mk_ring_ops bool false true xorb (fun b => b) andb Bool.eqb)
                                       (fun b => if b then Some true else None).
Proof.
  constructor.
  - constructor; cbn; try (intros; repeat match goal with b : bool |- _ => destruct b end; reflexivity).
    intros a b. destruct a, b; cbn; split; congruence.
  - cbn. discriminate.
  - reflexivity.
  - intros a Ha. destruct a; [exists true; split; reflexivity|contradiction].
Qed.

(* over F_7: x^2 + 2x + 1 = (4x + 2)(2x + 3) + 2;  gcd(x^2 - 1, x + 1) = x + 1;  gcd(3x^2, 4x^5) = x^2 *)
Example C15_ex_poly :
  p_div_rem (ff_dict 7) [1; 2; 1] [3; 2] = Some ([2; 4], [2]) /\
  p_gcd (ff_dict 7) [6; 0; 1] [1; 1] = Some [1; 1] /\
  h_gcd (ff_dict 7) (2%nat, 3) (5%nat, 4) = Some (2%nat, 1).
Proof. repeat split; vm_compute; reflexivity. Qed.
