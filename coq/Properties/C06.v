(* C06 - Canonical (Lee) classes and the s-type invariant behave as knot invariants.
   The invariance statements (diagram independence, reduced = unreduced, mirror antisymmetry, crossing
   change inequality) are theorems of the cited paper about the definition; they are NOT proved here -
   they are evaluated on the implementation's values for generated knots, move sequences, mirrors and
   every single crossing change.  On the definition side (Model/KhLee.v) Lee's canonical chains are built
   on the cube complex and checked, per instance, to be cycles in homological degree 0; the algebraic
   identities that make them cycles are proved for all h. *)
From Coq Require Import List Bool ZArith.
Require Import Yui.Model.KhCube Yui.Model.KhHomology Yui.Model.KhLee Yui.Proofs.KhAlg Yui.Proofs.KhLeeP.
Import ListNotations.
Open Scope Z_scope.

Theorem C06_lee_orthogonal : forall h, mul h 0 lee_a (lee_b h) = (0, 0) /\ mul h 0 (lee_b h) lee_a = (0, 0).
Proof. intros h. split; [exact (lee_ab h)|exact (lee_ba h)]. Qed.
Print Assumptions C06_lee_orthogonal.

Theorem C06_lee_squares : forall h,
  mul h 0 lee_a lee_a = a_scal h lee_a /\ mul h 0 (lee_b h) (lee_b h) = a_scal (- h) (lee_b h).
Proof. intros h. split; [exact (lee_aa h)|exact (lee_bb h)]. Qed.
Print Assumptions C06_lee_squares.

Theorem C06_lee_grouplike : forall h,
  comul h 0 lee_a = tensor lee_a lee_a /\ comul h 0 (lee_b h) = tensor (lee_b h) (lee_b h).
Proof. intros h. split; [exact (lee_comul_a h)|exact (lee_comul_b h)]. Qed.
Print Assumptions C06_lee_grouplike.

(* the Seifert state has weight n_- : the canonical chains live in homological degree 0 *)
Theorem C06_seifert_weight : forall signs,
  weight (seifert_state signs) = length (filter negb signs).
Proof.
  intros signs. unfold seifert_state, weight. induction signs as [|b s IH]; [reflexivity|].
  cbn [map filter]. destruct b; cbn [negb length]; now rewrite IH.
Qed.
Print Assumptions C06_seifert_weight.

(* non-vacuity: on the left-handed trefoil with h = 2 both canonical chains are non-zero cycles *)
Example C06_trefoil :
  lee_check [(CX, (1, 4, 2, 5)); (CX, (3, 6, 4, 1)); (CX, (5, 2, 6, 3))]%nat [false; false; false] 2 false
  = Some (2%nat, true, true).
Proof. vm_compute. reflexivity. Qed.
