(* C17 - Bit sequences behave as sequences of at most 64 bits.
   Property theorems only; every proof is [exact <lemma>] and is followed by Print Assumptions.
   Model: Model/BitSeq.v (mirror of yui/src/misc/bitseq.rs, u64 word explicit, panic = None).
   [abs b] is the list of booleans a value denotes, [Inv b] the representation invariant
   (len <= 64, val < 2^len).  [refines r s]: when the list-level operation is defined ([s = Some l])
   the model returns [Some b'] with [Inv b'] and [abs b' = l]; when it is not (index out of range,
   result longer than 64) the model returns [None], i.e. the Rust call panics before writing. *)
From Coq Require Import NArith List Bool Arith.
Require Import Yui.Model.BitSeq Yui.Proofs.BitSeqBits Yui.Proofs.BitSeq.
Import ListNotations.

(* constructors *)
Theorem C17_new : forall v l,
  refines (new v l) (if (l <=? 64) && (v <? 2 ^ N.of_nat l)%N then Some (bits v l) else None).
Proof. exact new_spec. Qed.
Print Assumptions C17_new.

Theorem C17_new_rev : forall v l, (v < 2 ^ 64)%N ->
  refines (new_rev v l) (if l <=? 64 then Some (rev (bits v l)) else None).
Proof. exact new_rev_spec. Qed.
Print Assumptions C17_new_rev.

Theorem C17_empty : refines empty (Some []).
Proof. exact empty_spec. Qed.
Print Assumptions C17_empty.

Theorem C17_zeros : forall l, refines (zeros l) (if l <=? 64 then Some (repeat false l) else None).
Proof. exact zeros_spec. Qed.
Print Assumptions C17_zeros.

Theorem C17_ones : forall l, refines (ones l) (if l <=? 64 then Some (repeat true l) else None).
Proof. exact ones_spec. Qed.
Print Assumptions C17_ones.

Theorem C17_from_iter : forall bs, refines (from_iter bs) (if length bs <=? 64 then Some bs else None).
Proof. exact from_iter_spec. Qed.
Print Assumptions C17_from_iter.

(* every mutator (set, push, append, remove, insert, prefix) refines the list operation, and an
   operation the list cannot perform within 64 bits is rejected *)
Theorem C17_step : forall b o, Inv b -> refines (step b o) (l_step (abs b) o).
Proof. exact step_refines. Qed.
Print Assumptions C17_step.

(* ... hence for every finite history from every valid value (a rejected call leaves the value as it was) *)
Theorem C17_histories : forall ops b, Inv b ->
  Inv (fold_left run_step ops b) /\ abs (fold_left run_step ops b) = fold_left l_run_step ops (abs b).
Proof. exact history_refines. Qed.
Print Assumptions C17_histories.

(* observers *)
Theorem C17_weight : forall b, Inv b -> weight b = Some (l_weight (abs b)).
Proof. exact weight_spec. Qed.
Print Assumptions C17_weight.

Theorem C17_iter : forall b, iter b = abs b.
Proof. exact iter_spec. Qed.
Print Assumptions C17_iter.

Theorem C17_index : forall b i, Inv b ->
  index b i = if i <? length (abs b) then Some (nth i (abs b) false) else None.
Proof. exact index_spec. Qed.
Print Assumptions C17_index.

Theorem C17_is_sub : forall a b, Inv a -> Inv b -> is_sub a b = Some (l_is_prefix (abs a) (abs b)).
Proof. exact is_sub_spec. Qed.
Print Assumptions C17_is_sub.

Theorem C17_is_prefix_meaning : forall a b,
  l_is_prefix a b = true <-> (length a <= length b /\ forall i, i < length a -> nth i a false = nth i b false).
Proof. exact l_is_prefix_spec. Qed.
Print Assumptions C17_is_prefix_meaning.

(* enumeration *)
Theorem C17_generate : forall l, l <= 64 ->
  exists gs, generate l = Some gs /\ length gs = 2 ^ l /\
    (forall k, k < 2 ^ l -> exists g, nth_error gs k = Some g /\ Inv g /\ abs g = bits (N.of_nat k) l).
Proof. exact generate_spec. Qed.
Print Assumptions C17_generate.

Theorem C17_generate_rejects : forall l, 64 < l -> generate l = None.
Proof. exact generate_none. Qed.
Print Assumptions C17_generate_rejects.

(* parsing and printing *)
Theorem C17_print : forall b, to_string b = chars_of (abs b).
Proof. exact to_string_spec. Qed.
Print Assumptions C17_print.

Theorem C17_parse_print : forall b, Inv b -> from_str (to_string b) = POk b.
Proof. exact from_str_to_string. Qed.
Print Assumptions C17_parse_print.

Theorem C17_parse : forall l,
  match from_str (chars_of l) with
  | POk b => length l <= 64 /\ Inv b /\ abs b = l
  | PErr => False
  | PPanic => 64 < length l
  end.
Proof. exact from_str_chars. Qed.
Print Assumptions C17_parse.

Theorem C17_parse_rejects : forall cs, (exists c, In c cs /\ c <> 0 /\ c <> 1) -> forall b, from_str cs <> POk b.
Proof. exact from_str_invalid. Qed.
Print Assumptions C17_parse_rejects.

(* the order: by length, then weight, then value; total and consistent with equality *)
Theorem C17_cmp : forall a b, Inv a -> Inv b -> cmp a b = Some (l_cmp (abs a) (abs b)).
Proof. exact cmp_spec. Qed.
Print Assumptions C17_cmp.

Theorem C17_order_eq : forall a b, l_cmp a b = Eq <-> a = b.
Proof. exact l_cmp_eq. Qed.
Print Assumptions C17_order_eq.

Theorem C17_order_antisym : forall a b, l_cmp b a = CompOpp (l_cmp a b).
Proof. exact l_cmp_antisym. Qed.
Print Assumptions C17_order_antisym.

Theorem C17_order_trans : forall a b c, l_cmp a b = Lt -> l_cmp b c = Lt -> l_cmp a c = Lt.
Proof. exact l_cmp_lt_trans. Qed.
Print Assumptions C17_order_trans.

Theorem C17_abs_injective : forall a b, Inv a -> Inv b -> abs a = abs b -> a = b.
Proof. exact abs_inj. Qed.
Print Assumptions C17_abs_injective.

(* non-vacuity: a full-length value meets the hypotheses and the operations behave at the boundary *)
Example C17_inv_at_64 : Inv (mk (N.ones 64) 64) /\ Inv (mk 5 3) /\ Inv (mk 0 0).
Proof. repeat split; cbn; try apply le_n; try (repeat constructor); reflexivity. Qed.
Example C17_full_push_rejected : push (mk (N.ones 64) 64) false = None /\ push (mk (N.ones 63) 63) true = Some (mk (N.ones 64) 64).
Proof. split; vm_compute; reflexivity. Qed.
Example C17_remove_at_63 : remove (mk (N.ones 64) 64) 63 = Some (mk (N.ones 63) 63).
Proof. vm_compute. reflexivity. Qed.
